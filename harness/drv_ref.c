/* C01/C02/C03 (and C11): every catalogue suite, run alone on one variant, compared with the reference
 * interpretation (ref.c). One "Ref" event per job; "Key" events for the key-preparation helpers. */
#define _GNU_SOURCE
#include "hx.h"
#include <stdlib.h>
#include <string.h>
#include <unistd.h>

static IMB_MGR *M, *KM; /* KM: the manager whose helpers prepare the keys (may be another variant) */
static const hx_variant *V;

static int
run_one(hx_job *j)
{
        int sig = sigsetjmp(hx_fault_jmp, 1);
        if (sig != 0) {
                alarm(0);
                free_mb_mgr(M);
                M = hx_mgr_new(V);
                return -sig;
        }
        alarm(20);
        IMB_JOB *slot = (IMB_JOB *) hx_call((void *) M->get_next_job, 1, (uint64_t) M);
        hx_job_to_slot(j, slot);
        IMB_JOB *r = (IMB_JOB *) hx_call((void *) M->submit_job, 1, (uint64_t) M);
        if (!r)
                r = (IMB_JOB *) hx_call((void *) M->flush_job, 1, (uint64_t) M);
        alarm(0);
        int st = r ? (int) r->status : -1;
        while (IMB_FLUSH_JOB(M) != NULL)
                ;
        return st;
}

static long nref, nhave;
static const char *replay_kv; /* --keyvariant in replay mode: the recorded run's second set of key helpers */

static void
ref_spec(const char *kind, hx_spec *sp, hx_rng *g)
{
        hx_job j;
        sp->placement = GA_SLACK;
        sp->ctrcls = 0; /* this driver sets its own counter classes below */
        /* (--keyvariant: the helpers of another variant prepare the keys of every second job - interchange - and this
         * variant's own helpers those of the others; the choice is a function of the logged seed) */
        hx_exec_mgr = M;
        if (hx_job_build((sp->seed >> 17) & 1 ? KM : M, sp, 1, &j) != 0)
                return;
        /* counter classes: push the 32-bit block counter (and for a third of the cases also the
         * bytes above it) towards the carry / wrap */
        int ctrcls = 0;
        if ((sp->cm == IMB_CIPHER_CNTR || sp->cm == IMB_CIPHER_CNTR_BITLEN || sp->cm == IMB_CIPHER_SM4_CNTR) &&
            sp->ivlen == 16) {
                ctrcls = (int) hx_below(g, 4);
                uint32_t blocks = (sp->len + 15) / 16;
                if (ctrcls == 1) { /* wrap of the 32-bit counter inside the message */
                        uint32_t c = 0xffffffffu - hx_below(g, blocks ? blocks : 1);
                        j.iv[12] = (uint8_t) (c >> 24);
                        j.iv[13] = (uint8_t) (c >> 16);
                        j.iv[14] = (uint8_t) (c >> 8);
                        j.iv[15] = (uint8_t) c;
                } else if (ctrcls == 2) { /* carry out of the low byte / 16 bits */
                        j.iv[13] = 0xff;
                        j.iv[14] = 0xff;
                        j.iv[15] = (uint8_t) (0xff - hx_below(g, 4));
                } else if (ctrcls == 3) { /* everything above the counter is all-ones too */
                        memset(j.iv + 4, 0xff, 12);
                        j.iv[15] = (uint8_t) (0xff - hx_below(g, 3));
                }
        }
        int st = run_one(&j);
        uint8_t *rd = malloc(sp->len + 64), rt[IMB_MAX_TAG_LEN];
        memset(rt, 0, sizeof(rt));
        int have = st == IMB_STATUS_COMPLETED ? hx_ref_job(&j, rd, rt) : 0;
        int dst_eq = 1, tag_eq = 1;
        if (have & 1) {
                size_t n = sp->len;
                if (sp->bitadj && n) {
                        uint8_t m = (uint8_t) (0xff << sp->bitadj);
                        dst_eq = memcmp(rd, j.dst, n - 1) == 0 && ((rd[n - 1] ^ j.dst[n - 1]) & m) == 0;
                } else
                        dst_eq = n == 0 || memcmp(rd, j.dst, n) == 0;
        }
        if (have & 2)
                tag_eq = memcmp(rt, j.tag, sp->taglen) == 0;
        nref++;
        if (have)
                nhave++;
        tr_begin("Ref");
        tr_str("variant", V->name);
        tr_str("kind", kind);
        tr_int("len", sp->len);
        tr_int("hlen", sp->hlen);
        tr_int("coff", sp->coff);
        tr_int("hoff", sp->hoff);
        tr_int("taglen", sp->taglen);
        tr_int("aadlen", sp->aadlen);
        tr_int("ivlen", sp->ivlen);
        tr_int("bitadj", sp->bitadj);
        tr_int("pli", sp->pli);
        tr_int("inplace", sp->inplace);
        tr_int("ctrcls", ctrcls);
        tr_int("akeylen", (long long) j.rawakey_len);
        tr_int("seedlo", (long long) (sp->seed & 0xffffff));
        tr_int("seedmid", (long long) ((sp->seed >> 24) & 0xffffff));
        tr_int("seedhi", (long long) (sp->seed >> 48));
        tr_int("st", st);
        tr_int("have", have);
        tr_int("dst_eq", dst_eq);
        tr_int("tag_eq", tag_eq);
        tr_int("abi", (long long) hx_abi_viol_bits);
        tr_end();
        free(rd);
        hx_job_free(&j);
        ga_reset();
}

/* ---- C11: helpers whose output format is defined by the standards ---- */
static void
key_checks(hx_rng *g, int n)
{
        for (int it = 0; it < n; it++) {
                uint8_t key[32];
                int cls = it % 6;
                hx_fill(g, key, 32);
                if (cls == 1)
                        memset(key, 0, 32);
                else if (cls == 2)
                        memset(key, 0xff, 32);
                else if (cls == 3) {
                        memset(key, 0, 32);
                        key[hx_below(g, 32)] = (uint8_t) (1u << hx_below(g, 8));
                }
                for (int kl = 16; kl <= 32; kl += 8) {
                        DECLARE_ALIGNED(uint8_t enc[15 * 16], 16);
                        DECLARE_ALIGNED(uint8_t dec[15 * 16], 16);
                        uint8_t renc[15 * 16], rdec[15 * 16];
                        memset(enc, 0, sizeof(enc));
                        memset(dec, 0, sizeof(dec));
                        if (kl == 16)
                                IMB_AES_KEYEXP_128(M, key, enc, dec);
                        else if (kl == 24)
                                IMB_AES_KEYEXP_192(M, key, enc, dec);
                        else
                                IMB_AES_KEYEXP_256(M, key, enc, dec);
                        hx_ref_aes_keyexp(key, kl, renc, rdec);
                        size_t sz = (size_t) (16 * (kl / 4 + 7));
                        tr_begin("Key");
                        tr_str("variant", V->name);
                        tr_str("what", "aes_keyexp");
                        tr_int("kl", kl);
                        tr_int("cls", cls);
                        tr_int("enc_eq", memcmp(enc, renc, sz) == 0);
                        tr_int("dec_eq", memcmp(dec, rdec, sz) == 0);
                        tr_end();
                        if (kl != 24) {
                                DECLARE_ALIGNED(uint8_t s1[16], 16);
                                DECLARE_ALIGNED(uint8_t s2[16], 16);
                                uint8_t r1[16], r2[16];
                                if (kl == 16)
                                        IMB_AES_CMAC_SUBKEY_GEN_128(M, enc, s1, s2);
                                else
                                        IMB_AES_CMAC_SUBKEY_GEN_256(M, enc, s1, s2);
                                hx_ref_cmac_subkeys(key, kl, r1, r2);
                                tr_begin("Key");
                                tr_str("variant", V->name);
                                tr_str("what", "cmac_subkeys");
                                tr_int("kl", kl);
                                tr_int("cls", cls);
                                tr_int("enc_eq", memcmp(s1, r1, 16) == 0);
                                tr_int("dec_eq", memcmp(s2, r2, 16) == 0);
                                tr_end();
                        }
                }
                {
                        DECLARE_ALIGNED(uint8_t k1e[11 * 16], 16);
                        DECLARE_ALIGNED(uint8_t k2[16], 16);
                        DECLARE_ALIGNED(uint8_t k3[16], 16);
                        uint8_t r1[16], r2[16], r3[16], r1e[15 * 16], dust[15 * 16];
                        IMB_AES_XCBC_KEYEXP(M, key, k1e, k2, k3);
                        hx_ref_xcbc_keys(key, r1, r2, r3);
                        hx_ref_aes_keyexp(r1, 16, r1e, dust);
                        tr_begin("Key");
                        tr_str("variant", V->name);
                        tr_str("what", "xcbc_keyexp");
                        tr_int("kl", 16);
                        tr_int("cls", cls);
                        tr_int("enc_eq", memcmp(k1e, r1e, 11 * 16) == 0);
                        tr_int("dec_eq", memcmp(k2, r2, 16) == 0 && memcmp(k3, r3, 16) == 0);
                        tr_end();
                }
        }
        /* HMAC-MD5 keys longer than one block are refused with the key-length error */
        {
                uint8_t key[100], ip[64], op[64];
                hx_fill(g, key, sizeof(key));
                memset(ip, 0xEE, sizeof(ip));
                imb_hmac_ipad_opad(M, IMB_AUTH_MD5, key, 65, ip, op);
                int err = imb_get_errno(M);
                int untouched = 1;
                for (int i = 0; i < 16; i++)
                        if (ip[i] != 0xEE)
                                untouched = 0;
                tr_begin("Key");
                tr_str("variant", V->name);
                tr_str("what", "hmac_md5_long_key");
                tr_int("kl", 65);
                tr_int("cls", 0);
                tr_int("enc_eq", err == IMB_ERR_KEY_LEN);
                tr_int("dec_eq", untouched);
                tr_end();
        }
}


/* 3GPP IV generators against the bit layouts of the specifications (TS 35.201 f8/f9, TS 35.215
 * UEA2/UIA2, 128-EEA3/EIA3 v1.7), written here from the specification text. The output buffer is
 * pre-filled (zeros / ones / random): every IV byte must be defined by the call alone, nothing beyond
 * the IV may be written. */
static void
put_be32(uint8_t *p, uint32_t v)
{
        p[0] = (uint8_t) (v >> 24);
        p[1] = (uint8_t) (v >> 16);
        p[2] = (uint8_t) (v >> 8);
        p[3] = (uint8_t) v;
}

static void
ivgen_checks(hx_rng *g, int n)
{
        static const char *const names[6] = { "iv_zuc_eea3", "iv_zuc_eia3", "iv_kasumi_f8", "iv_kasumi_f9",
                                              "iv_snow3g_f8", "iv_snow3g_f9" };
        for (int it = 0; it < n; it++) {
                for (int w = 0; w < 6; w++) {
                        uint32_t count = (uint32_t) hx_rand(g), fresh = (uint32_t) hx_rand(g);
                        if (it % 5 == 1)
                                count = 0xffffffffu;
                        if (it % 5 == 2)
                                count = 0, fresh = 0;
                        uint8_t bearer = (uint8_t) hx_below(g, 32), dir = (uint8_t) hx_below(g, 2);
                        uint8_t buf[32], pre[32], exp[16];
                        int fill = it % 3, ivsz = (w == 2 || w == 3) ? 8 : 16, rc = -9;
                        if (fill == 0)
                                memset(buf, 0, sizeof(buf));
                        else if (fill == 1)
                                memset(buf, 0xff, sizeof(buf));
                        else
                                hx_fill(g, buf, sizeof(buf));
                        memcpy(pre, buf, sizeof(buf));
                        memset(exp, 0, sizeof(exp));
                        switch (w) {
                        case 0: /* 128-EEA3: COUNT | BEARER DIR 00 | 0 0 0 | repeat */
                                rc = zuc_eea3_iv_gen(count, bearer, dir, buf);
                                put_be32(exp, count);
                                exp[4] = (uint8_t) ((bearer << 3) | (dir << 2));
                                memcpy(exp + 8, exp, 8);
                                break;
                        case 1: /* 128-EIA3 */
                                rc = zuc_eia3_iv_gen(count, bearer, dir, buf);
                                put_be32(exp, count);
                                exp[4] = (uint8_t) (bearer << 3);
                                memcpy(exp + 8, exp, 8);
                                exp[8] ^= (uint8_t) (dir << 7);
                                exp[14] ^= (uint8_t) (dir << 7);
                                break;
                        case 2: /* KASUMI f8: COUNT || BEARER || DIRECTION || 0^26 */
                                rc = kasumi_f8_iv_gen(count, bearer, dir, buf);
                                put_be32(exp, count);
                                exp[4] = (uint8_t) ((bearer << 3) | (dir << 2));
                                break;
                        case 3: /* KASUMI f9: COUNT || FRESH */
                                rc = kasumi_f9_iv_gen(count, fresh, buf);
                                put_be32(exp, count);
                                put_be32(exp + 4, fresh);
                                break;
                        case 4: /* UEA2: IV3 = COUNT, IV2 = BEARER||DIR||0^26, IV1 = IV3, IV0 = IV2 */
                                rc = snow3g_f8_iv_gen(count, bearer, dir, buf);
                                put_be32(exp, count);
                                put_be32(exp + 4, ((uint32_t) bearer << 27) | ((uint32_t) dir << 26));
                                memcpy(exp + 8, exp, 8);
                                break;
                        default: /* UIA2: COUNT, FRESH, COUNT ^ DIR<<31, FRESH ^ DIR<<15 */
                                rc = snow3g_f9_iv_gen(count, fresh, dir, buf);
                                put_be32(exp, count);
                                put_be32(exp + 4, fresh);
                                put_be32(exp + 8, count ^ ((uint32_t) dir << 31));
                                put_be32(exp + 12, fresh ^ ((uint32_t) dir << 15));
                                break;
                        }
                        tr_begin("Key");
                        tr_str("variant", V->name);
                        tr_str("what", names[w]);
                        tr_int("kl", ivsz);
                        tr_int("cls", fill);
                        tr_int("enc_eq", rc == 0 && memcmp(buf, exp, (size_t) ivsz) == 0);
                        tr_int("dec_eq", memcmp(buf + ivsz, pre + ivsz, sizeof(buf) - (size_t) ivsz) == 0);
                        tr_end();
                }
        }
        /* refused arguments: bearer >= 32, direction > 1 -> -1 and the buffer untouched */
        for (int w = 0; w < 6; w++) {
                uint8_t buf[16], pre[16];
                hx_fill(g, buf, sizeof(buf));
                memcpy(pre, buf, sizeof(buf));
                int r1 = 0, r2 = 0;
                switch (w) {
                case 0: r1 = zuc_eea3_iv_gen(1, 32, 0, buf); r2 = zuc_eea3_iv_gen(1, 3, 2, buf); break;
                case 1: r1 = zuc_eia3_iv_gen(1, 32, 0, buf); r2 = zuc_eia3_iv_gen(1, 3, 2, buf); break;
                case 2: r1 = kasumi_f8_iv_gen(1, 32, 0, buf); r2 = kasumi_f8_iv_gen(1, 3, 2, buf); break;
                case 3: r1 = kasumi_f9_iv_gen(1, 1, NULL); r2 = -1; break;
                case 4: r1 = snow3g_f8_iv_gen(1, 32, 0, buf); r2 = snow3g_f8_iv_gen(1, 3, 2, buf); break;
                default: r1 = snow3g_f9_iv_gen(1, 1, 2, buf); r2 = snow3g_f9_iv_gen(1, 1, 0, NULL); break;
                }
                tr_begin("Key");
                tr_str("variant", V->name);
                tr_str("what", names[w]);
                tr_int("kl", 0);
                tr_int("cls", 9);
                tr_int("enc_eq", r1 == -1 && r2 == -1);
                tr_int("dec_eq", memcmp(buf, pre, sizeof(buf)) == 0);
                tr_end();
        }
}

static long
jint(const char *line, const char *key)
{
        char pat[64];
        snprintf(pat, sizeof(pat), "\"%s\":", key);
        const char *p = strstr(line, pat);
        return p ? strtol(p + strlen(pat), NULL, 10) : 0;
}
static void
jstr(const char *line, const char *key, char *out, size_t n)
{
        char pat[64];
        snprintf(pat, sizeof(pat), "\"%s\":\"", key);
        const char *p = strstr(line, pat);
        out[0] = 0;
        if (!p)
                return;
        p += strlen(pat);
        size_t i = 0;
        while (*p && *p != '"' && i + 1 < n)
                out[i++] = *p++;
        out[i] = 0;
}

/* re-execute the Ref events of a file from their logged parameters (counter class is re-drawn from
 * the logged seed, so the replay is exact for ctrcls 0 and representative otherwise) */
static void
replay_file(const char *path)
{
        FILE *f = fopen(path, "r");
        static char line[1 << 16];
        char kind[64], var[32];
        if (!f)
                return;
        while (fgets(line, sizeof(line), f)) {
                if (!strstr(line, "\"e\":\"Ref\""))
                        continue;
                jstr(line, "kind", kind, sizeof(kind));
                jstr(line, "variant", var, sizeof(var));
                const hx_variant *v = hx_variant_by_name(var);
                if (!v)
                        continue;
                if (v != V) {
                        if (M)
                                free_mb_mgr(M);
                        V = v;
                        M = KM = hx_mgr_new(V);
                        if (replay_kv && hx_variant_by_name(replay_kv))
                                KM = hx_mgr_new(hx_variant_by_name(replay_kv));
                        if (!KM)
                                KM = M;
                }
                hx_rng g;
                hx_seed(&g, 1);
                hx_spec sp;
                if (!hx_spec_from_kind(kind, &g, &sp))
                        continue;
                sp.len = (uint32_t) jint(line, "len");
                sp.hlen = (uint32_t) jint(line, "hlen");
                sp.coff = (uint32_t) jint(line, "coff");
                sp.hoff = (uint32_t) jint(line, "hoff");
                sp.taglen = (uint32_t) jint(line, "taglen");
                sp.aadlen = (uint32_t) jint(line, "aadlen");
                sp.ivlen = (uint32_t) jint(line, "ivlen");
                sp.bitadj = (uint32_t) jint(line, "bitadj");
                sp.pli = (uint32_t) jint(line, "pli");
                sp.inplace = (int) jint(line, "inplace");
                sp.seed = (uint64_t) jint(line, "seedlo") | ((uint64_t) jint(line, "seedmid") << 24) |
                          ((uint64_t) jint(line, "seedhi") << 48);
                hx_rng g2;
                hx_seed(&g2, sp.seed ^ 0xc0ffee);
                ref_spec(kind, &sp, &g2);
        }
        fclose(f);
}

int
drv_ref(int argc, char **argv)
{
        hx_data_patterns = 1; /* structured messages / keys for some seeds (also on replay) */
        const char *out = NULL, *variant = "sse_t1", *kinds = NULL, *keyvariant = NULL, *replay = NULL;
        int n = 40, dense = 0, nkeys = 24, nowin = 0;
        uint64_t seed = 1;
        for (int i = 0; i < argc; i++) {
                if (!strcmp(argv[i], "--out"))
                        out = argv[++i];
                else if (!strcmp(argv[i], "--variant"))
                        variant = argv[++i];
                else if (!strcmp(argv[i], "--keyvariant"))
                        keyvariant = argv[++i];
                else if (!strcmp(argv[i], "--kinds"))
                        kinds = argv[++i];
                else if (!strcmp(argv[i], "--n"))
                        n = atoi(argv[++i]);
                else if (!strcmp(argv[i], "--dense"))
                        dense = atoi(argv[++i]);
                else if (!strcmp(argv[i], "--replay"))
                        replay = argv[++i];
                else if (!strcmp(argv[i], "--no-windows"))
                        nowin = 1;
                else if (!strcmp(argv[i], "--keys"))
                        nkeys = atoi(argv[++i]);
                else if (!strcmp(argv[i], "--seed"))
                        seed = strtoull(argv[++i], NULL, 0);
        }
        hx_trace = out ? fopen(out, "w") : stdout;
        static char tbuf[1 << 20];
        setvbuf(hx_trace, tbuf, _IOFBF, sizeof(tbuf));
        if (replay) {
                replay_kv = keyvariant;
                replay_file(replay);
                fclose(hx_trace);
                return 0;
        }
        V = hx_variant_by_name(variant);
        M = V ? hx_mgr_new(V) : NULL;
        if (!M)
                return 2;
        KM = M;
        if (keyvariant) {
                const hx_variant *kv = hx_variant_by_name(keyvariant);
                KM = kv ? hx_mgr_new(kv) : NULL;
                if (!KM)
                        return 2;
        }
        const char *klist[256];
        int nk = 0;
        char kb[4096];
        if (kinds) {
                snprintf(kb, sizeof(kb), "%s", kinds);
                for (char *p = strtok(kb, ","); p && nk < 256; p = strtok(NULL, ","))
                        klist[nk++] = p;
        } else
                for (int i = 0; i < hx_nkinds; i++)
                        klist[nk++] = hx_kinds[i];
        hx_rng g;
        hx_seed(&g, seed);
        for (int k = 0; k < nk; k++)
                for (int it = 0; it < n + dense; it++) {
                        hx_spec sp;
                        hx_force_len = it < dense ? it : -1;
                        if (!hx_spec_from_kind(klist[k], &g, &sp))
                                return 2;
                        hx_rng g2;
                        hx_seed(&g2, sp.seed ^ 0xc0ffee);
                        ref_spec(klist[k], &sp, &g2);
                }
        /* counter-carry windows: with the standard 12-byte IV (GCM) / small nonces the block counter starts
         * at a fixed small value, so a carry out of its low byte happens at fixed message offsets
         * (block 254 -> bytes 4064.., block 510 -> bytes 8160..); every length around them */
        static const long win[][2] = { { 4030, 120 }, { 8130, 110 } };
        for (int k = 0; k < nk && !nowin; k++) {
                const char *kn = klist[k];
                if (!strstr(kn, "GCM") && !strstr(kn, "CTR") && !strstr(kn, "CCM") && !strstr(kn, "GMAC") &&
                    !strstr(kn, "CHA") && !strstr(kn, "SNOWV"))
                        continue;
                for (int w = 0; w < 2; w++)
                        for (long it = 0; it < win[w][1]; it++) {
                                hx_spec sp;
                                hx_force_len = win[w][0] + it;
                                if (!hx_spec_from_kind(kn, &g, &sp))
                                        return 2;
                                hx_rng g2;
                                hx_seed(&g2, sp.seed ^ 0xc0ffee);
                                ref_spec(kn, &sp, &g2);
                        }
        }
        hx_force_len = -1;
        /* AES-CFB has no upper length limit in the job check: lengths at and above 64 KiB (the VAES x16 lanes count in 16 bits) */
        for (int k = 0; k < nk && !nowin; k++) {
                const char *kn = klist[k];
                if (strncmp(kn, "CFB", 3) != 0 || strchr(kn, '+'))
                        continue;
                static const uint32_t big[] = { 65536, 65552, 69984, 131088 };
                for (int w = 0; w < 4; w++) {
                        hx_spec sp;
                        if (!hx_spec_from_kind(kn, &g, &sp))
                                return 2;
                        sp.len = big[w];
                        hx_rng g2;
                        hx_seed(&g2, sp.seed ^ 0xc0ffee);
                        ref_spec(kn, &sp, &g2);
                }
        }
        key_checks(&g, nkeys);
        ivgen_checks(&g, nkeys);
        fclose(hx_trace);
        fprintf(stderr, "{\"jobs\":%ld,\"with_reference\":%ld,\"abi_viol\":%d}\n", nref, nhave, hx_abi_viol_total);
        return 0;
}
