/* C14 (error-string lookup is total): imb_get_strerror() for every integer class.
 * One event per library code IMB_ERR_MIN+1 .. IMB_ERR_MAX-1 and per probe outside that range. */
#define _GNU_SOURCE
#include "hx.h"
#include <limits.h>
#include <stdlib.h>
#include <string.h>
#include <unistd.h>

static void
one(int code)
{
        const char *s = NULL;
        int sig = sigsetjmp(hx_fault_jmp, 1);
        if (sig == 0) {
                alarm(5);
                s = (const char *) hx_call((void *) imb_get_strerror, 1, (uint64_t) (int64_t) code);
                alarm(0);
        }
        uint32_t h = 2166136261u;
        size_t n = 0;
        int unknown = 0;
        if (s && sig == 0) {
                n = strnlen(s, 4096);
                for (size_t i = 0; i < n; i++)
                        h = (h ^ (uint8_t) s[i]) * 16777619u;
                unknown = strncmp(s, "Unknown error", 13) == 0;
        }
        tr_begin("StrErr");
        /* TLC integers are 32 bit: the code is logged as sign, high and low part */
        tr_int("neg", code < 0);
        tr_int("code", code < 0 ? 0 : code);
        tr_int("fault", sig);
        tr_int("null", s == NULL);
        tr_int("len", (long long) n);
        tr_int("h", (long long) (h & 0x3fffffff));
        tr_int("unknown", unknown);
        tr_int("noerr", s && sig == 0 && strcmp(s, "No error") == 0);
        tr_int("abi", (long long) hx_last_tr.viol);
        tr_end();
}

int
drv_strerr(int argc, char **argv)
{
        const char *out = NULL;
        for (int i = 0; i < argc; i++)
                if (!strcmp(argv[i], "--out"))
                        out = argv[++i];
        hx_trace = out ? fopen(out, "w") : stdout;
        tr_begin("StrErrBegin");
        tr_int("min", IMB_ERR_MIN);
        tr_int("max", IMB_ERR_MAX);
        tr_end();
        long n = 0;
        for (int c = -300; c <= IMB_ERR_MAX + 300; c++, n++)
                one(c);
        static const int probes[] = { INT_MIN, INT_MIN + 1, -65536, -4096, 4096, 65535, 65536, 1 << 20, INT_MAX - 1, INT_MAX };
        for (unsigned i = 0; i < sizeof(probes) / sizeof(probes[0]); i++, n++)
                one(probes[i]);
        tr_begin("StrErrEnd");
        tr_int("n", n);
        tr_end();
        fclose(hx_trace);
        fprintf(stderr, "{\"codes\":%ld}\n", n);
        return 0;
}
