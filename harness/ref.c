/* Reference interpretation of the published algorithms (C01/C02/C03/C11), independent of the library:
 * OpenSSL block primitives (AES/DES/SM4 single blocks, SHA-x/MD5/SM3 digests, ChaCha20, Poly1305,
 * GCM/CCM AEADs) composed into the modes by straightforward code that follows the mode definitions.
 * hx_ref_job() computes, for a job built by the catalogue, what dst/tag must be. */
#define _GNU_SOURCE
#define OPENSSL_SUPPRESS_DEPRECATED
#include "hx.h"
#include <stdlib.h>
#include <string.h>
#include <openssl/evp.h>
#include <openssl/hmac.h>
#include <openssl/des.h>
#include <openssl/aes.h>
#include <openssl/core_names.h>

/* ------------------------------------------------------------------ block primitives */
static void
aes_ecb_block(const uint8_t *key, int kl, int enc, const uint8_t in[16], uint8_t out[16])
{
        AES_KEY k;
        if (enc) {
                AES_set_encrypt_key(key, kl * 8, &k);
                AES_encrypt(in, out, &k);
        } else {
                AES_set_decrypt_key(key, kl * 8, &k);
                AES_decrypt(in, out, &k);
        }
}

static int
sm4_block(const uint8_t *key, int enc, const uint8_t in[16], uint8_t out[16])
{
        EVP_CIPHER_CTX *c = EVP_CIPHER_CTX_new();
        int n = 0, ok = EVP_CipherInit_ex(c, EVP_sm4_ecb(), NULL, key, NULL, enc) == 1;
        EVP_CIPHER_CTX_set_padding(c, 0);
        ok = ok && EVP_CipherUpdate(c, out, &n, in, 16) == 1 && n == 16;
        EVP_CIPHER_CTX_free(c);
        return ok;
}

typedef void (*blk_fn)(const void *kctx, int enc, const uint8_t *in, uint8_t *out);
typedef struct {
        const uint8_t *key;
        int kl;
} aes_kctx;
static void
blk_aes(const void *kctx, int enc, const uint8_t *in, uint8_t *out)
{
        const aes_kctx *k = kctx;
        aes_ecb_block(k->key, k->kl, enc, in, out);
}
static void
blk_sm4(const void *kctx, int enc, const uint8_t *in, uint8_t *out)
{
        sm4_block(kctx, enc, in, out);
}
typedef struct {
        DES_key_schedule ks[3];
        int n;
} des_kctx;
static void
blk_des(const void *kctx, int enc, const uint8_t *in, uint8_t *out)
{
        const des_kctx *k = kctx;
        DES_cblock i, o;
        memcpy(i, in, 8);
        if (k->n == 1)
                DES_ecb_encrypt(&i, &o, (DES_key_schedule *) &k->ks[0], enc ? DES_ENCRYPT : DES_DECRYPT);
        else
                DES_ecb3_encrypt(&i, &o, (DES_key_schedule *) &k->ks[0], (DES_key_schedule *) &k->ks[1],
                                 (DES_key_schedule *) &k->ks[2], enc ? DES_ENCRYPT : DES_DECRYPT);
        memcpy(out, o, 8);
}

/* ------------------------------------------------------------------ modes */
static void
cbc(blk_fn f, const void *k, int bs, int enc, const uint8_t *iv, const uint8_t *in, uint8_t *out, size_t len)
{
        uint8_t chain[16], t[16];
        memcpy(chain, iv, (size_t) bs);
        for (size_t o = 0; o + (size_t) bs <= len; o += (size_t) bs) {
                if (enc) {
                        for (int i = 0; i < bs; i++)
                                t[i] = in[o + (size_t) i] ^ chain[i];
                        f(k, 1, t, out + o);
                        memcpy(chain, out + o, (size_t) bs);
                } else {
                        uint8_t c[16];
                        memcpy(c, in + o, (size_t) bs);
                        f(k, 0, c, t);
                        for (int i = 0; i < bs; i++)
                                out[o + (size_t) i] = t[i] ^ chain[i];
                        memcpy(chain, c, (size_t) bs);
                }
        }
}

/* full-block CFB (segment = block size) */
static void
cfb(blk_fn f, const void *k, int bs, int enc, const uint8_t *iv, const uint8_t *in, uint8_t *out, size_t len)
{
        uint8_t chain[16], ks[16];
        memcpy(chain, iv, (size_t) bs);
        for (size_t o = 0; o < len; o += (size_t) bs) {
                size_t n = len - o < (size_t) bs ? len - o : (size_t) bs;
                f(k, 1, chain, ks);
                uint8_t c[16];
                for (size_t i = 0; i < n; i++) {
                        c[i] = enc ? (uint8_t) (in[o + i] ^ ks[i]) : in[o + i];
                        out[o + i] = in[o + i] ^ ks[i];
                }
                if (n == (size_t) bs)
                        memcpy(chain, enc ? out + o : c, (size_t) bs);
        }
}

/* 128-EEA2 (3GPP TS 33.401 B.1.3), the algorithm IMB_CIPHER_CNTR_BITLEN is documented to be: the
 * standard incrementing function is applied to the least significant 64 bits of the counter block */
static void
ctr64(blk_fn f, const void *k, const uint8_t cb0[16], const uint8_t *in, uint8_t *out, size_t len)
{
        uint8_t cb[16], ks[16];
        memcpy(cb, cb0, 16);
        for (size_t o = 0; o < len; o += 16) {
                size_t n = len - o < 16 ? len - o : 16;
                f(k, 1, cb, ks);
                for (size_t i = 0; i < n; i++)
                        out[o + i] = in[o + i] ^ ks[i];
                for (int i = 15; i >= 8; i--)
                        if (++cb[i] != 0)
                                break;
        }
}

/* counter mode: 16-byte counter block, last 32 bits big-endian incremented modulo 2^32 */
static void
ctr32(blk_fn f, const void *k, const uint8_t cb0[16], const uint8_t *in, uint8_t *out, size_t len)
{
        uint8_t cb[16], ks[16];
        memcpy(cb, cb0, 16);
        for (size_t o = 0; o < len; o += 16) {
                size_t n = len - o < 16 ? len - o : 16;
                f(k, 1, cb, ks);
                for (size_t i = 0; i < n; i++)
                        out[o + i] = in[o + i] ^ ks[i];
                uint32_t c = ((uint32_t) cb[12] << 24) | ((uint32_t) cb[13] << 16) | ((uint32_t) cb[14] << 8) | cb[15];
                c++;
                cb[12] = (uint8_t) (c >> 24);
                cb[13] = (uint8_t) (c >> 16);
                cb[14] = (uint8_t) (c >> 8);
                cb[15] = (uint8_t) c;
        }
}

/* DOCSIS BPI: CBC over the full blocks, residual termination of a partial last block by CFB keyed
 * with the previous ciphertext block (or the IV when the message is shorter than one block) */
static void
docsis_bpi(blk_fn f, const void *k, int bs, int enc, const uint8_t *iv, const uint8_t *in, uint8_t *out, size_t len)
{
        size_t full = len / (size_t) bs * (size_t) bs, rem = len - full;
        cbc(f, k, bs, enc, iv, in, out, full);
        if (rem) {
                const uint8_t *prev = full ? (enc ? out + full - (size_t) bs : in + full - (size_t) bs) : iv;
                uint8_t ks[16];
                f(k, 1, prev, ks);
                for (size_t i = 0; i < rem; i++)
                        out[full + i] = in[full + i] ^ ks[i];
        }
}

/* ------------------------------------------------------------------ MACs built from AES */
static void
dbl128(uint8_t b[16])
{
        int carry = b[0] >> 7;
        for (int i = 0; i < 15; i++)
                b[i] = (uint8_t) ((b[i] << 1) | (b[i + 1] >> 7));
        b[15] = (uint8_t) (b[15] << 1);
        if (carry)
                b[15] ^= 0x87;
}

/* CMAC over a bit string of nbits bits (NIST SP 800-38B) */
static void
cmac_bits(const uint8_t *key, int kl, const uint8_t *m, uint64_t nbits, uint8_t tag[16])
{
        aes_kctx kc = { key, kl };
        uint8_t L[16] = { 0 }, K1[16], K2[16], x[16] = { 0 }, last[16] = { 0 };
        blk_aes(&kc, 1, L, L);
        memcpy(K1, L, 16);
        dbl128(K1);
        memcpy(K2, K1, 16);
        dbl128(K2);
        uint64_t nblk = (nbits + 127) / 128;
        int complete = nbits > 0 && (nbits % 128) == 0;
        if (nblk == 0)
                nblk = 1;
        for (uint64_t b = 0; b + 1 < nblk; b++) {
                for (int i = 0; i < 16; i++)
                        x[i] ^= m[b * 16 + (uint64_t) i];
                blk_aes(&kc, 1, x, x);
        }
        uint64_t off = (nblk - 1) * 16;
        if (complete) {
                for (int i = 0; i < 16; i++)
                        last[i] = m[off + (uint64_t) i] ^ K1[i];
        } else {
                uint64_t rbits = nbits - (nblk - 1) * 128; /* 0..127 */
                uint64_t rbytes = rbits / 8, rb = rbits % 8;
                memcpy(last, m + off, (size_t) rbytes);
                if (rb) {
                        uint8_t mask = (uint8_t) (0xff << (8 - rb));
                        last[rbytes] = (uint8_t) ((m[off + rbytes] & mask) | (0x80 >> rb));
                } else
                        last[rbytes] = 0x80;
                for (int i = 0; i < 16; i++)
                        last[i] ^= K2[i];
        }
        for (int i = 0; i < 16; i++)
                x[i] ^= last[i];
        blk_aes(&kc, 1, x, tag);
}

/* AES-XCBC-MAC-96 (RFC 3566) */
static void
xcbc(const uint8_t *key, const uint8_t *m, size_t len, uint8_t tag[16])
{
        aes_kctx kc = { key, 16 };
        uint8_t c1[16], c2[16], c3[16], K1[16], K2[16], K3[16], e[16] = { 0 }, last[16] = { 0 };
        memset(c1, 1, 16);
        memset(c2, 2, 16);
        memset(c3, 3, 16);
        blk_aes(&kc, 1, c1, K1);
        blk_aes(&kc, 1, c2, K2);
        blk_aes(&kc, 1, c3, K3);
        aes_kctx k1 = { K1, 16 };
        size_t nblk = (len + 15) / 16;
        if (nblk == 0)
                nblk = 1;
        for (size_t b = 0; b + 1 < nblk; b++) {
                for (int i = 0; i < 16; i++)
                        e[i] ^= m[b * 16 + (size_t) i];
                blk_aes(&k1, 1, e, e);
        }
        size_t off = (nblk - 1) * 16, r = len - off;
        if (len > 0 && r == 16) {
                for (int i = 0; i < 16; i++)
                        last[i] = m[off + (size_t) i] ^ K2[i];
        } else {
                if (len > 0)
                        memcpy(last, m + off, r);
                else
                        r = 0;
                last[r] = 0x80;
                for (int i = 0; i < 16; i++)
                        last[i] ^= K3[i];
        }
        for (int i = 0; i < 16; i++)
                e[i] ^= last[i];
        blk_aes(&k1, 1, e, tag);
}

/* GF(2^128) multiplication of NIST SP 800-38D (bit 0 = most significant bit of byte 0) */
static void
gf_mult(const uint8_t X[16], const uint8_t Y[16], uint8_t out[16])
{
        uint8_t Z[16] = { 0 }, V[16];
        memcpy(V, Y, 16);
        for (int i = 0; i < 128; i++) {
                if ((X[i / 8] >> (7 - (i % 8))) & 1)
                        for (int j = 0; j < 16; j++)
                                Z[j] ^= V[j];
                int lsb = V[15] & 1;
                for (int j = 15; j > 0; j--)
                        V[j] = (uint8_t) ((V[j] >> 1) | (V[j - 1] << 7));
                V[0] >>= 1;
                if (lsb)
                        V[0] ^= 0xe1;
        }
        memcpy(out, Z, 16);
}

static void
ghash(const uint8_t H[16], uint8_t Y[16], const uint8_t *m, size_t len)
{
        for (size_t o = 0; o < len; o += 16) {
                uint8_t b[16] = { 0 };
                memcpy(b, m + o, len - o < 16 ? len - o : 16);
                for (int i = 0; i < 16; i++)
                        Y[i] ^= b[i];
                gf_mult(Y, H, Y);
        }
}

/* ------------------------------------------------------------------ CRCs (bitwise, from the generator polynomials) */
static uint32_t
crc_msb(uint32_t poly, int width, uint32_t init, const uint8_t *p, size_t len)
{
        uint32_t top = 1u << (width - 1), mask = width == 32 ? 0xffffffffu : ((1u << width) - 1);
        uint32_t crc = init & mask;
        for (size_t i = 0; i < len; i++)
                for (int b = 7; b >= 0; b--) {
                        uint32_t bit = (p[i] >> b) & 1;
                        uint32_t msb = (crc & top) ? 1 : 0;
                        crc = (crc << 1) & mask;
                        if (msb ^ bit)
                                crc ^= poly;
                }
        return crc & mask;
}
static uint32_t
reflect(uint32_t v, int width)
{
        uint32_t r = 0;
        for (int i = 0; i < width; i++)
                if (v & (1u << i))
                        r |= 1u << (width - 1 - i);
        return r;
}
static uint32_t
crc_lsb(uint32_t poly, int width, uint32_t init, const uint8_t *p, size_t len)
{
        uint32_t rp = reflect(poly, width), mask = width == 32 ? 0xffffffffu : ((1u << width) - 1);
        uint32_t crc = init & mask;
        for (size_t i = 0; i < len; i++) {
                crc ^= p[i];
                for (int b = 0; b < 8; b++)
                        crc = (crc & 1) ? (crc >> 1) ^ rp : crc >> 1;
        }
        return crc & mask;
}

static int
crc_ref(int ha, const uint8_t *p, size_t len, uint32_t *out)
{
        switch (ha) {
        case IMB_AUTH_CRC32_ETHERNET_FCS:
                *out = ~crc_lsb(0x04c11db7u, 32, 0xffffffffu, p, len);
                return 1;
        case IMB_AUTH_CRC16_X25:
                *out = (~crc_lsb(0x1021u, 16, 0xffffu, p, len)) & 0xffff;
                return 1;
        case IMB_AUTH_CRC32_SCTP:
                *out = crc_msb(0x1edc6f41u, 32, 0, p, len);
                return 1;
        case IMB_AUTH_CRC32_WIMAX_OFDMA_DATA:
                *out = ~crc_msb(0x04c11db7u, 32, 0xffffffffu, p, len);
                return 1;
        case IMB_AUTH_CRC24_LTE_A:
                *out = crc_msb(0x864cfbu, 24, 0, p, len);
                return 1;
        case IMB_AUTH_CRC24_LTE_B:
                *out = crc_msb(0x800063u, 24, 0, p, len);
                return 1;
        case IMB_AUTH_CRC16_FP_DATA:
                *out = crc_msb(0x8005u, 16, 0, p, len);
                return 1;
        case IMB_AUTH_CRC11_FP_HEADER:
                *out = crc_msb(0x307u, 11, 0, p, len);
                return 1;
        case IMB_AUTH_CRC10_IUUP_DATA:
                *out = crc_msb(0x233u, 10, 0, p, len);
                return 1;
        case IMB_AUTH_CRC8_WIMAX_OFDMA_HCS:
                *out = crc_msb(0x07u, 8, 0, p, len);
                return 1;
        case IMB_AUTH_CRC7_FP_HEADER:
                *out = crc_msb(0x45u, 7, 0, p, len);
                return 1;
        case IMB_AUTH_CRC6_IUUP_HEADER:
                *out = crc_msb(0x2fu, 6, 0, p, len);
                return 1;
        default:
                return 0;
        }
}

/* ------------------------------------------------------------------ EVP AEAD helpers */
static int
evp_aead(const EVP_CIPHER *ciph, int enc, const uint8_t *key, const uint8_t *iv, int ivlen, const uint8_t *aad,
         int aadlen, const uint8_t *in, uint8_t *out, int len, uint8_t *tag, int taglen, int ccm)
{
        EVP_CIPHER_CTX *c = EVP_CIPHER_CTX_new();
        int n = 0, ok = 1;
        uint8_t full[16];
        ok &= EVP_EncryptInit_ex(c, ciph, NULL, NULL, NULL) == 1;
        ok &= EVP_CIPHER_CTX_ctrl(c, EVP_CTRL_AEAD_SET_IVLEN, ivlen, NULL) == 1;
        if (ccm)
                ok &= EVP_CIPHER_CTX_ctrl(c, EVP_CTRL_AEAD_SET_TAG, taglen, NULL) == 1;
        ok &= EVP_EncryptInit_ex(c, NULL, NULL, key, iv) == 1;
        if (ccm)
                ok &= EVP_EncryptUpdate(c, NULL, &n, NULL, len) == 1;
        if (aadlen)
                ok &= EVP_EncryptUpdate(c, NULL, &n, aad, aadlen) == 1;
        if (len || ccm)
                ok &= EVP_EncryptUpdate(c, out, &n, in, len) == 1;
        ok &= EVP_EncryptFinal_ex(c, full, &n) == 1;
        ok &= EVP_CIPHER_CTX_ctrl(c, EVP_CTRL_AEAD_GET_TAG, ccm ? taglen : 16, full) == 1;
        memcpy(tag, full, (size_t) taglen);
        EVP_CIPHER_CTX_free(c);
        (void) enc;
        return ok;
}

static int
digest(const EVP_MD *md, const uint8_t *m, size_t len, uint8_t *out)
{
        unsigned n = 0;
        return EVP_Digest(m, len, out, &n, md, NULL) == 1;
}

/* ------------------------------------------------------------------ the job-level reference */
/* returns bit0: dst reference available, bit1: tag reference available; fills rdst/rtag */
int
hx_ref_job(const hx_job *j, uint8_t *rdst, uint8_t *rtag)
{
        const hx_spec *sp = &j->sp;
        const uint8_t *src0 = j->src_snapshot; /* source as it was when the job was built */
        const uint8_t *in = src0 + sp->coff;
        const int enc = sp->dir == IMB_DIR_ENCRYPT;
        int have = 0;
        const size_t len = sp->len;
        aes_kctx ak = { j->rawkey, sp->kl };

        /* ---------------- AEAD ---------------- */
        switch (sp->cm) {
        case IMB_CIPHER_GCM:
        case IMB_CIPHER_SM4_GCM: {
                const EVP_CIPHER *c = sp->cm == IMB_CIPHER_SM4_GCM
                                              ? EVP_CIPHER_fetch(NULL, "SM4-GCM", NULL)
                                              : (sp->kl == 16 ? EVP_aes_128_gcm() : sp->kl == 24 ? EVP_aes_192_gcm() : EVP_aes_256_gcm());
                if (!c)
                        return 0;
                if (enc) {
                        if (!evp_aead(c, 1, j->rawkey, j->iv, (int) sp->ivlen, j->aad, (int) sp->aadlen, in, rdst, (int) len, rtag,
                                      (int) sp->taglen, 0))
                                return 0;
                } else {
                        /* decrypt = same keystream; tag is over the ciphertext (= input) */
                        uint8_t *tmp = malloc(len + 1);
                        /* run the encryptor over the *plaintext* we obtain by CTR: obtain plaintext first */
                        /* GCM decryption: P = C xor KS, tag over C. Encrypting P reproduces C and the tag. */
                        EVP_CIPHER_CTX *d = EVP_CIPHER_CTX_new();
                        int n = 0, ok = 1;
                        ok &= EVP_DecryptInit_ex(d, c, NULL, NULL, NULL) == 1;
                        ok &= EVP_CIPHER_CTX_ctrl(d, EVP_CTRL_AEAD_SET_IVLEN, (int) sp->ivlen, NULL) == 1;
                        ok &= EVP_DecryptInit_ex(d, NULL, NULL, j->rawkey, j->iv) == 1;
                        if (sp->aadlen)
                                ok &= EVP_DecryptUpdate(d, NULL, &n, j->aad, (int) sp->aadlen) == 1;
                        if (len)
                                ok &= EVP_DecryptUpdate(d, rdst, &n, in, (int) len) == 1;
                        EVP_CIPHER_CTX_free(d);
                        ok &= evp_aead(c, 1, j->rawkey, j->iv, (int) sp->ivlen, j->aad, (int) sp->aadlen, rdst, tmp, (int) len, rtag,
                                       (int) sp->taglen, 0);
                        free(tmp);
                        if (!ok)
                                return 0;
                }
                return 3;
        }
        case IMB_CIPHER_CCM: {
                const EVP_CIPHER *c = sp->kl == 16 ? EVP_aes_128_ccm() : EVP_aes_256_ccm();
                if (enc) {
                        if (!evp_aead(c, 1, j->rawkey, j->iv, (int) sp->ivlen, j->aad, (int) sp->aadlen, in, rdst, (int) len, rtag,
                                      (int) sp->taglen, 1))
                                return 0;
                } else {
                        /* CTR keystream of CCM: counter block flags = L-1, nonce, counter from 1 */
                        uint8_t cb[16] = { 0 };
                        int L = 15 - (int) sp->ivlen;
                        cb[0] = (uint8_t) (L - 1);
                        memcpy(cb + 1, j->iv, sp->ivlen);
                        cb[15] = 1;
                        /* counter field is L bytes; messages here are < 2^16 so a 32-bit increment of the
                         * last 4 bytes is exact for L >= 2 */
                        ctr32(blk_aes, &ak, cb, in, rdst, len);
                        uint8_t *tmp = malloc(len + 1);
                        int ok = evp_aead(c, 1, j->rawkey, j->iv, (int) sp->ivlen, j->aad, (int) sp->aadlen, rdst, tmp, (int) len, rtag,
                                          (int) sp->taglen, 1);
                        free(tmp);
                        if (!ok)
                                return 0;
                }
                return 3;
        }
        case IMB_CIPHER_CHACHA20_POLY1305: {
                const EVP_CIPHER *c = EVP_chacha20_poly1305();
                if (enc) {
                        if (!evp_aead(c, 1, j->rawkey, j->iv, 12, j->aad, (int) sp->aadlen, in, rdst, (int) len, rtag, 16, 0))
                                return 0;
                } else {
                        /* plaintext via raw ChaCha20 with block counter 1, then tag by re-encrypting */
                        uint8_t civ[16] = { 1, 0, 0, 0 };
                        memcpy(civ + 4, j->iv, 12);
                        EVP_CIPHER_CTX *d = EVP_CIPHER_CTX_new();
                        int n = 0, ok = EVP_EncryptInit_ex(d, EVP_chacha20(), NULL, j->rawkey, civ) == 1;
                        if (len)
                                ok &= EVP_EncryptUpdate(d, rdst, &n, in, (int) len) == 1;
                        EVP_CIPHER_CTX_free(d);
                        uint8_t *tmp = malloc(len + 1);
                        ok &= evp_aead(c, 1, j->rawkey, j->iv, 12, j->aad, (int) sp->aadlen, rdst, tmp, (int) len, rtag, 16, 0);
                        free(tmp);
                        if (!ok)
                                return 0;
                }
                return 3;
        }
        default:
                break;
        }

        /* ---------------- cipher ---------------- */
        switch (sp->cm) {
        case IMB_CIPHER_NULL:
                break;
        case IMB_CIPHER_CBC:
                cbc(blk_aes, &ak, 16, enc, j->iv, in, rdst, len);
                have |= 1;
                break;
        case IMB_CIPHER_ECB:
                for (size_t o = 0; o + 16 <= len; o += 16)
                        blk_aes(&ak, enc, in + o, rdst + o);
                have |= 1;
                break;
        case IMB_CIPHER_CFB:
                cfb(blk_aes, &ak, 16, enc, j->iv, in, rdst, len);
                have |= 1;
                break;
        case IMB_CIPHER_CNTR:
        case IMB_CIPHER_CNTR_BITLEN: {
                uint8_t cb[16];
                if (sp->ivlen == 16)
                        memcpy(cb, j->iv, 16);
                else {
                        memcpy(cb, j->iv, 12);
                        cb[12] = cb[13] = cb[14] = 0;
                        cb[15] = 1;
                }
                if (sp->cm == IMB_CIPHER_CNTR_BITLEN)
                        ctr64(blk_aes, &ak, cb, in, rdst, len);
                else
                        ctr32(blk_aes, &ak, cb, in, rdst, len);
                have |= 1;
                break;
        }
        case IMB_CIPHER_DOCSIS_SEC_BPI:
                if (sp->ha == IMB_AUTH_DOCSIS_CRC32)
                        break; /* combined mode: see below */
                docsis_bpi(blk_aes, &ak, 16, enc, j->iv, in, rdst, len);
                have |= 1;
                break;
        case IMB_CIPHER_DES:
        case IMB_CIPHER_DOCSIS_DES:
        case IMB_CIPHER_DES3: {
                des_kctx dk;
                dk.n = sp->cm == IMB_CIPHER_DES3 ? 3 : 1;
                for (int i = 0; i < dk.n; i++) {
                        DES_cblock kb;
                        memcpy(kb, j->rawkey + 8 * i, 8);
                        DES_set_key_unchecked(&kb, &dk.ks[i]);
                }
                if (sp->cm == IMB_CIPHER_DOCSIS_DES)
                        docsis_bpi(blk_des, &dk, 8, enc, j->iv, in, rdst, len);
                else
                        cbc(blk_des, &dk, 8, enc, j->iv, in, rdst, len);
                have |= 1;
                break;
        }
        case IMB_CIPHER_CHACHA20: {
                uint8_t civ[16] = { 0 };
                memcpy(civ + 4, j->iv, 12);
                civ[0] = 1; /* block counter starts at 1, as in the AEAD construction */
                EVP_CIPHER_CTX *d = EVP_CIPHER_CTX_new();
                int n = 0;
                if (EVP_EncryptInit_ex(d, EVP_chacha20(), NULL, j->rawkey, civ) == 1 &&
                    EVP_EncryptUpdate(d, rdst, &n, in, (int) len) == 1)
                        have |= 1;
                EVP_CIPHER_CTX_free(d);
                break;
        }
        case IMB_CIPHER_SM4_ECB:
                for (size_t o = 0; o + 16 <= len; o += 16)
                        sm4_block(j->rawkey, enc, in + o, rdst + o);
                have |= 1;
                break;
        case IMB_CIPHER_SM4_CBC:
                cbc(blk_sm4, j->rawkey, 16, enc, j->iv, in, rdst, len);
                have |= 1;
                break;
        case IMB_CIPHER_SM4_CNTR: {
                uint8_t cb[16];
                if (sp->ivlen == 16)
                        memcpy(cb, j->iv, 16);
                else {
                        memcpy(cb, j->iv, 12);
                        cb[12] = cb[13] = cb[14] = 0;
                        cb[15] = 1;
                }
                ctr32(blk_sm4, j->rawkey, cb, in, rdst, len);
                have |= 1;
                break;
        }
        default:
                break; /* ZUC, SNOW3G, KASUMI, SNOW-V, CBCS: no independent reference here */
        }

        /* ---------------- hash ---------------- */
        if (sp->ha == IMB_AUTH_NULL || !j->tag)
                return have;
        /* the bytes the hash stage sees: the source as it stands when the stage runs */
        uint8_t *view = malloc(j->src_size + 1);
        memcpy(view, src0, j->src_size);
        if (sp->cm != IMB_CIPHER_NULL && sp->inplace && sp->order == IMB_ORDER_CIPHER_HASH) {
                if (!(have & 1)) {
                        free(view);
                        return have; /* cannot know what the hash saw */
                }
                memcpy(view + sp->coff, rdst, len);
        }
        const uint8_t *hm = view + sp->hoff;
        const size_t hl = sp->hlen;
        uint8_t full[64] = { 0 };
        int ok = 0;
        const EVP_MD *md = NULL;
        switch (sp->ha) {
        case IMB_AUTH_HMAC_SHA_1:
                md = EVP_sha1();
                break;
        case IMB_AUTH_HMAC_SHA_224:
                md = EVP_sha224();
                break;
        case IMB_AUTH_HMAC_SHA_256:
                md = EVP_sha256();
                break;
        case IMB_AUTH_HMAC_SHA_384:
                md = EVP_sha384();
                break;
        case IMB_AUTH_HMAC_SHA_512:
                md = EVP_sha512();
                break;
        case IMB_AUTH_MD5:
                md = EVP_md5();
                break;
        case IMB_AUTH_HMAC_SM3:
                md = EVP_sm3();
                break;
        default:
                break;
        }
        if (md) {
                unsigned n = 0;
                ok = HMAC(md, j->rawakey, (int) j->rawakey_len, hm, hl, full, &n) != NULL;
        } else
                switch (sp->ha) {
                case IMB_AUTH_SHA_1:
                        ok = digest(EVP_sha1(), hm, hl, full);
                        break;
                case IMB_AUTH_SHA_224:
                        ok = digest(EVP_sha224(), hm, hl, full);
                        break;
                case IMB_AUTH_SHA_256:
                        ok = digest(EVP_sha256(), hm, hl, full);
                        break;
                case IMB_AUTH_SHA_384:
                        ok = digest(EVP_sha384(), hm, hl, full);
                        break;
                case IMB_AUTH_SHA_512:
                        ok = digest(EVP_sha512(), hm, hl, full);
                        break;
                case IMB_AUTH_SM3:
                        ok = digest(EVP_sm3(), hm, hl, full);
                        break;
                case IMB_AUTH_AES_XCBC:
                        xcbc(j->rawakey, hm, hl, full);
                        ok = 1;
                        break;
                case IMB_AUTH_AES_CMAC:
                        cmac_bits(j->rawakey, 16, hm, (uint64_t) hl * 8, full);
                        ok = 1;
                        break;
                case IMB_AUTH_AES_CMAC_256:
                        cmac_bits(j->rawakey, 32, hm, (uint64_t) hl * 8, full);
                        ok = 1;
                        break;
                case IMB_AUTH_AES_CMAC_BITLEN:
                        cmac_bits(j->rawakey, 16, hm, j->tmpl.msg_len_to_hash_in_bits, full);
                        ok = 1;
                        break;
                case IMB_AUTH_AES_GMAC_128:
                case IMB_AUTH_AES_GMAC_192:
                case IMB_AUTH_AES_GMAC_256: {
                        int kl = sp->ha == IMB_AUTH_AES_GMAC_128 ? 16 : sp->ha == IMB_AUTH_AES_GMAC_192 ? 24 : 32;
                        const EVP_CIPHER *c = kl == 16 ? EVP_aes_128_gcm() : kl == 24 ? EVP_aes_192_gcm() : EVP_aes_256_gcm();
                        ok = evp_aead(c, 1, j->rawakey, j->tmpl.u.GMAC._iv, 12, hm, (int) hl, NULL, NULL, 0, full, 16, 0);
                        break;
                }
                case IMB_AUTH_GHASH: {
                        /* Y0 = initial tag (zero-extended to 16 bytes when a shorter tag is requested) */
                        uint8_t Y[16] = { 0 };
                        memcpy(Y, j->tmpl.u.GHASH._init_tag, sp->taglen);
                        ghash(j->rawakey, Y, hm, hl);
                        memcpy(full, Y, 16);
                        ok = 1;
                        break;
                }
                case IMB_AUTH_POLY1305: {
                        EVP_MAC *mac = EVP_MAC_fetch(NULL, "POLY1305", NULL);
                        EVP_MAC_CTX *mc = mac ? EVP_MAC_CTX_new(mac) : NULL;
                        size_t n = 0;
                        if (mc && EVP_MAC_init(mc, j->rawakey, 32, NULL) == 1 && EVP_MAC_update(mc, hm, hl) == 1 &&
                            EVP_MAC_final(mc, full, &n, 16) == 1)
                                ok = 1;
                        EVP_MAC_CTX_free(mc);
                        EVP_MAC_free(mac);
                        break;
                }
                default: {
                        uint32_t c;
                        if (crc_ref(sp->ha, hm, hl, &c)) {
                                full[0] = (uint8_t) c;
                                full[1] = (uint8_t) (c >> 8);
                                full[2] = (uint8_t) (c >> 16);
                                full[3] = (uint8_t) (c >> 24);
                                ok = 1;
                        }
                        break;
                }
                }
        free(view);
        if (ok) {
                memcpy(rtag, full, sp->taglen);
                have |= 2;
        }
        return have;
}

/* ------------------------------------------------------------------ C11: key material from the standards */
static uint8_t sbox[256];
static void
make_sbox(void)
{
        /* multiplicative inverse in GF(2^8) followed by the affine map of FIPS-197 */
        uint8_t p = 1, q = 1;
        do {
                p = (uint8_t) (p ^ (p << 1) ^ ((p & 0x80) ? 0x1b : 0));
                q ^= (uint8_t) (q << 1);
                q ^= (uint8_t) (q << 2);
                q ^= (uint8_t) (q << 4);
                if (q & 0x80)
                        q ^= 0x09;
                uint8_t x = (uint8_t) (q ^ ((q << 1) | (q >> 7)) ^ ((q << 2) | (q >> 6)) ^ ((q << 3) | (q >> 5)) ^
                                       ((q << 4) | (q >> 4)));
                sbox[p] = (uint8_t) (x ^ 0x63);
        } while (p != 1);
        sbox[0] = 0x63;
}
static uint8_t
xt(uint8_t a)
{
        return (uint8_t) ((a << 1) ^ ((a & 0x80) ? 0x1b : 0));
}
static uint8_t
gmul(uint8_t a, uint8_t b)
{
        uint8_t r = 0;
        while (b) {
                if (b & 1)
                        r ^= a;
                a = xt(a);
                b >>= 1;
        }
        return r;
}

/* FIPS-197 key expansion; enc[r] = round key r; dec = keys of the equivalent inverse cipher in the
 * order the library documents (dec[0] = enc[Nr], dec[i] = InvMixColumns(enc[Nr-i]), dec[Nr] = enc[0]) */
void
hx_ref_aes_keyexp(const uint8_t *key, int kl, uint8_t *enc, uint8_t *dec)
{
        if (!sbox[1])
                make_sbox();
        const int Nk = kl / 4, Nr = Nk + 6, words = 4 * (Nr + 1);
        uint8_t w[60][4];
        memcpy(w, key, (size_t) kl);
        uint8_t rcon = 1;
        for (int i = Nk; i < words; i++) {
                uint8_t t[4];
                memcpy(t, w[i - 1], 4);
                if (i % Nk == 0) {
                        uint8_t t0 = t[0];
                        t[0] = (uint8_t) (sbox[t[1]] ^ rcon);
                        t[1] = sbox[t[2]];
                        t[2] = sbox[t[3]];
                        t[3] = sbox[t0];
                        rcon = xt(rcon);
                } else if (Nk > 6 && i % Nk == 4)
                        for (int k = 0; k < 4; k++)
                                t[k] = sbox[t[k]];
                for (int k = 0; k < 4; k++)
                        w[i][k] = w[i - Nk][k] ^ t[k];
        }
        memcpy(enc, w, (size_t) (16 * (Nr + 1)));
        for (int r = 0; r <= Nr; r++) {
                const uint8_t *s = enc + 16 * (Nr - r);
                uint8_t *d = dec + 16 * r;
                if (r == 0 || r == Nr)
                        memcpy(d, s, 16);
                else
                        for (int c = 0; c < 4; c++) {
                                const uint8_t *a = s + 4 * c;
                                d[4 * c + 0] = gmul(a[0], 14) ^ gmul(a[1], 11) ^ gmul(a[2], 13) ^ gmul(a[3], 9);
                                d[4 * c + 1] = gmul(a[0], 9) ^ gmul(a[1], 14) ^ gmul(a[2], 11) ^ gmul(a[3], 13);
                                d[4 * c + 2] = gmul(a[0], 13) ^ gmul(a[1], 9) ^ gmul(a[2], 14) ^ gmul(a[3], 11);
                                d[4 * c + 3] = gmul(a[0], 11) ^ gmul(a[1], 13) ^ gmul(a[2], 9) ^ gmul(a[3], 14);
                        }
        }
}

void
hx_ref_cmac_subkeys(const uint8_t *key, int kl, uint8_t k1[16], uint8_t k2[16])
{
        aes_kctx kc = { key, kl };
        uint8_t L[16] = { 0 };
        blk_aes(&kc, 1, L, L);
        memcpy(k1, L, 16);
        dbl128(k1);
        memcpy(k2, k1, 16);
        dbl128(k2);
}

void
hx_ref_xcbc_keys(const uint8_t *key, uint8_t k1[16], uint8_t k2[16], uint8_t k3[16])
{
        aes_kctx kc = { key, 16 };
        uint8_t c[16];
        memset(c, 1, 16);
        blk_aes(&kc, 1, c, k1);
        memset(c, 2, 16);
        blk_aes(&kc, 1, c, k2);
        memset(c, 3, 16);
        blk_aes(&kc, 1, c, k3);
}
