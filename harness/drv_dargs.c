/* C12 (direct API): every direct function x every pointer argument NULL (one at a time), and the valid call.
 * A table gives, per function, the argument values of a valid call and the role of each argument; the driver
 * records for each case: fault?, process-wide error code, caller output buffers untouched? */
#define _GNU_SOURCE
#include "hx.h"
#include <stdlib.h>
#include <string.h>
#include <unistd.h>

typedef uint64_t (*fn10_t)(uint64_t, uint64_t, uint64_t, uint64_t, uint64_t, uint64_t, uint64_t, uint64_t, uint64_t, uint64_t);

typedef struct {
        const char *name;
        void *fn;
        int n;
        uint64_t a[10];
        const char *role[10]; /* "key" "expkey" "src" "dst" "iv" "aad" "tag" "ctx" "digest" = pointer that must not be NULL; "val" = scalar */
} dcase;

static IMB_MGR *M;
static const hx_variant *V;
/* one arena of caller buffers, re-filled before every call */
static uint8_t *buf;          /* 64 KiB */
static uint8_t *pre;
#define B(off) ((uint64_t) (uintptr_t) (buf + (off)))
#define KEYRAW 0
#define EXPENC 1024
#define EXPDEC 2048
#define OUT1 4096
#define OUT2 5120
#define OUT3 6144
#define IN1 8192
#define IVB 12288
#define AADB 12544
#define TAGB 12800
#define CTXB 16384
#define GKEY 20480
#define SCHED 32768

static dcase T[256];
static int NT;

static void
add(const char *name, void *fn, int n, const uint64_t *a, const char *const *roles)
{
        dcase *c = &T[NT++];
        c->name = name;
        c->fn = fn;
        c->n = n;
        for (int i = 0; i < n; i++) {
                c->a[i] = a[i];
                c->role[i] = roles[i];
        }
}
#define ADD(name, fn, n, ...)                                                                      \
        do {                                                                                       \
                const uint64_t a_[] = { __VA_ARGS__ };                                             \
                add(name, (void *) (fn), n, a_, r_);                                               \
        } while (0)

static void
build_table(void)
{
        {
                const char *r_[] = { "key", "dst", "dst" };
                ADD("keyexp_128", M->keyexp_128, 3, B(KEYRAW), B(EXPENC), B(EXPDEC));
                ADD("keyexp_192", M->keyexp_192, 3, B(KEYRAW), B(EXPENC), B(EXPDEC));
                ADD("keyexp_256", M->keyexp_256, 3, B(KEYRAW), B(EXPENC), B(EXPDEC));
                ADD("sm4_keyexp", M->sm4_keyexp, 3, B(KEYRAW), B(EXPENC), B(EXPDEC));
        }
        {
                const char *r_[] = { "expkey", "dst", "dst" };
                ADD("cmac_subkey_gen_128", M->cmac_subkey_gen_128, 3, B(EXPENC), B(OUT1), B(OUT2));
                ADD("cmac_subkey_gen_256", M->cmac_subkey_gen_256, 3, B(EXPENC), B(OUT1), B(OUT2));
        }
        {
                const char *r_[] = { "key", "dst", "dst", "dst" };
                ADD("xcbc_keyexp", M->xcbc_keyexp, 4, B(KEYRAW), B(OUT1), B(OUT2), B(OUT3));
        }
        {
                const char *r_[] = { "dst", "key" };
                ADD("des_key_sched", M->des_key_sched, 2, B(OUT1), B(KEYRAW));
        }
        {
                const char *r_[] = { "src", "digest" };
                ADD("sha1_one_block", M->sha1_one_block, 2, B(IN1), B(OUT1));
                ADD("sha224_one_block", M->sha224_one_block, 2, B(IN1), B(OUT1));
                ADD("sha256_one_block", M->sha256_one_block, 2, B(IN1), B(OUT1));
                ADD("sha384_one_block", M->sha384_one_block, 2, B(IN1), B(OUT1));
                ADD("sha512_one_block", M->sha512_one_block, 2, B(IN1), B(OUT1));
                ADD("md5_one_block", M->md5_one_block, 2, B(IN1), B(OUT1));
        }
        {
                const char *r_[] = { "src", "val", "digest" };
                ADD("sha1", M->sha1, 3, B(IN1), 100, B(OUT1));
                ADD("sha224", M->sha224, 3, B(IN1), 100, B(OUT1));
                ADD("sha256", M->sha256, 3, B(IN1), 100, B(OUT1));
                ADD("sha384", M->sha384, 3, B(IN1), 100, B(OUT1));
                ADD("sha512", M->sha512, 3, B(IN1), 100, B(OUT1));
        }
        {
                const char *r_[] = { "dst", "src", "iv", "expkey", "val" };
                ADD("aes128_cfb_one", M->aes128_cfb_one, 5, B(OUT1), B(IN1), B(IVB), B(EXPENC), 11);
                ADD("aes256_cfb_one", M->aes256_cfb_one, 5, B(OUT1), B(IN1), B(IVB), B(EXPENC), 11);
        }
        {
                const char *r_[] = { "key", "ctx", "dst", "src", "val", "iv", "aad", "val", "tag", "val" };
                ADD("gcm128_enc", M->gcm128_enc, 10, B(GKEY), B(CTXB), B(OUT1), B(IN1), 77, B(IVB), B(AADB), 20, B(TAGB), 16);
                ADD("gcm192_enc", M->gcm192_enc, 10, B(GKEY), B(CTXB), B(OUT1), B(IN1), 77, B(IVB), B(AADB), 20, B(TAGB), 16);
                ADD("gcm256_enc", M->gcm256_enc, 10, B(GKEY), B(CTXB), B(OUT1), B(IN1), 77, B(IVB), B(AADB), 20, B(TAGB), 16);
                ADD("gcm128_dec", M->gcm128_dec, 10, B(GKEY), B(CTXB), B(OUT1), B(IN1), 77, B(IVB), B(AADB), 20, B(TAGB), 16);
                ADD("gcm192_dec", M->gcm192_dec, 10, B(GKEY), B(CTXB), B(OUT1), B(IN1), 77, B(IVB), B(AADB), 20, B(TAGB), 16);
                ADD("gcm256_dec", M->gcm256_dec, 10, B(GKEY), B(CTXB), B(OUT1), B(IN1), 77, B(IVB), B(AADB), 20, B(TAGB), 16);
        }
        {
                const char *r_[] = { "key", "ctx", "iv", "aad", "val" };
                ADD("gcm128_init", M->gcm128_init, 5, B(GKEY), B(CTXB), B(IVB), B(AADB), 20);
                ADD("gcm192_init", M->gcm192_init, 5, B(GKEY), B(CTXB), B(IVB), B(AADB), 20);
                ADD("gcm256_init", M->gcm256_init, 5, B(GKEY), B(CTXB), B(IVB), B(AADB), 20);
        }
        {
                const char *r_[] = { "key", "ctx", "iv", "val", "aad", "val" };
                ADD("gcm128_init_var_iv", M->gcm128_init_var_iv, 6, B(GKEY), B(CTXB), B(IVB), 17, B(AADB), 20);
                ADD("gcm192_init_var_iv", M->gcm192_init_var_iv, 6, B(GKEY), B(CTXB), B(IVB), 17, B(AADB), 20);
                ADD("gcm256_init_var_iv", M->gcm256_init_var_iv, 6, B(GKEY), B(CTXB), B(IVB), 17, B(AADB), 20);
        }
        {
                const char *r_[] = { "key", "ctx", "dst", "src", "val" };
                ADD("gcm128_enc_update", M->gcm128_enc_update, 5, B(GKEY), B(CTXB), B(OUT1), B(IN1), 50);
                ADD("gcm192_enc_update", M->gcm192_enc_update, 5, B(GKEY), B(CTXB), B(OUT1), B(IN1), 50);
                ADD("gcm256_enc_update", M->gcm256_enc_update, 5, B(GKEY), B(CTXB), B(OUT1), B(IN1), 50);
                ADD("gcm128_dec_update", M->gcm128_dec_update, 5, B(GKEY), B(CTXB), B(OUT1), B(IN1), 50);
                ADD("gcm192_dec_update", M->gcm192_dec_update, 5, B(GKEY), B(CTXB), B(OUT1), B(IN1), 50);
                ADD("gcm256_dec_update", M->gcm256_dec_update, 5, B(GKEY), B(CTXB), B(OUT1), B(IN1), 50);
        }
        {
                const char *r_[] = { "key", "ctx", "tag", "val" };
                ADD("gcm128_enc_finalize", M->gcm128_enc_finalize, 4, B(GKEY), B(CTXB), B(TAGB), 16);
                ADD("gcm192_enc_finalize", M->gcm192_enc_finalize, 4, B(GKEY), B(CTXB), B(TAGB), 16);
                ADD("gcm256_enc_finalize", M->gcm256_enc_finalize, 4, B(GKEY), B(CTXB), B(TAGB), 16);
                ADD("gcm128_dec_finalize", M->gcm128_dec_finalize, 4, B(GKEY), B(CTXB), B(TAGB), 16);
                ADD("gcm192_dec_finalize", M->gcm192_dec_finalize, 4, B(GKEY), B(CTXB), B(TAGB), 16);
                ADD("gcm256_dec_finalize", M->gcm256_dec_finalize, 4, B(GKEY), B(CTXB), B(TAGB), 16);
                ADD("gmac128_finalize", M->gmac128_finalize, 4, B(GKEY), B(CTXB), B(TAGB), 16);
                ADD("gmac192_finalize", M->gmac192_finalize, 4, B(GKEY), B(CTXB), B(TAGB), 16);
                ADD("gmac256_finalize", M->gmac256_finalize, 4, B(GKEY), B(CTXB), B(TAGB), 16);
        }
        {
                const char *r_[] = { "key", "ctx", "iv", "val" };
                ADD("gmac128_init", M->gmac128_init, 4, B(GKEY), B(CTXB), B(IVB), 12);
                ADD("gmac192_init", M->gmac192_init, 4, B(GKEY), B(CTXB), B(IVB), 12);
                ADD("gmac256_init", M->gmac256_init, 4, B(GKEY), B(CTXB), B(IVB), 12);
        }
        {
                const char *r_[] = { "key", "ctx", "src", "val" };
                ADD("gmac128_update", M->gmac128_update, 4, B(GKEY), B(CTXB), B(IN1), 40);
                ADD("gmac192_update", M->gmac192_update, 4, B(GKEY), B(CTXB), B(IN1), 40);
                ADD("gmac256_update", M->gmac256_update, 4, B(GKEY), B(CTXB), B(IN1), 40);
        }
        {
                const char *r_[] = { "key" };
                ADD("gcm128_precomp", M->gcm128_precomp, 1, B(GKEY));
                ADD("gcm192_precomp", M->gcm192_precomp, 1, B(GKEY));
                ADD("gcm256_precomp", M->gcm256_precomp, 1, B(GKEY));
        }
        {
                const char *r_[] = { "key", "dst" };
                ADD("gcm128_pre", M->gcm128_pre, 2, B(KEYRAW), B(SCHED));
                ADD("gcm192_pre", M->gcm192_pre, 2, B(KEYRAW), B(SCHED));
                ADD("gcm256_pre", M->gcm256_pre, 2, B(KEYRAW), B(SCHED));
                ADD("ghash_pre", M->ghash_pre, 2, B(KEYRAW), B(SCHED));
        }
        {
                const char *r_[] = { "key", "src", "val", "tag", "val" };
                ADD("ghash", M->ghash, 5, B(GKEY), B(IN1), 48, B(TAGB), 16);
        }
        {
                const char *r_[] = { "key", "iv", "src", "dst", "val" };
                ADD("eea3_1_buffer", M->eea3_1_buffer, 5, B(KEYRAW), B(IVB), B(IN1), B(OUT1), 60);
        }
        {
                const char *r_[] = { "key", "iv", "src", "val", "tag" };
                ADD("eia3_1_buffer", M->eia3_1_buffer, 5, B(KEYRAW), B(IVB), B(IN1), 200, B(TAGB));
        }
        {
                const char *r_[] = { "key", "dst" };
                ADD("snow3g_init_key_sched", M->snow3g_init_key_sched, 2, B(KEYRAW), B(OUT1));
                ADD("kasumi_init_f8_key_sched", M->kasumi_init_f8_key_sched, 2, B(KEYRAW), B(OUT1));
                ADD("kasumi_init_f9_key_sched", M->kasumi_init_f9_key_sched, 2, B(KEYRAW), B(OUT1));
        }
        {
                const char *r_[] = { "expkey", "iv", "src", "dst", "val" };
                ADD("snow3g_f8_1_buffer", M->snow3g_f8_1_buffer, 5, B(SCHED), B(IVB), B(IN1), B(OUT1), 60);
        }
        {
                const char *r_[] = { "expkey", "iv", "src", "val", "tag" };
                ADD("snow3g_f9_1_buffer", M->snow3g_f9_1_buffer, 5, B(SCHED), B(IVB), B(IN1), 200, B(TAGB));
        }
        {
                const char *r_[] = { "expkey", "val", "src", "dst", "val" };
                ADD("kasumi_f8_1_buffer", M->f8_1_buffer, 5, B(SCHED + 4096), 0x1122334455667788ULL, B(IN1), B(OUT1), 60);
        }
        {
                const char *r_[] = { "expkey", "src", "val", "tag" };
                ADD("kasumi_f9_1_buffer", M->f9_1_buffer, 4, B(SCHED + 8192), B(IN1), 40, B(TAGB));
        }
        {
                const char *r_[] = { "src", "val" };
                ADD("crc32_ethernet_fcs", M->crc32_ethernet_fcs, 2, B(IN1), 100);
                ADD("crc16_x25", M->crc16_x25, 2, B(IN1), 100);
                ADD("crc32_sctp", M->crc32_sctp, 2, B(IN1), 100);
                ADD("crc24_lte_a", M->crc24_lte_a, 2, B(IN1), 100);
                ADD("crc24_lte_b", M->crc24_lte_b, 2, B(IN1), 100);
                ADD("crc16_fp_data", M->crc16_fp_data, 2, B(IN1), 100);
                ADD("crc11_fp_header", M->crc11_fp_header, 2, B(IN1), 100);
                ADD("crc7_fp_header", M->crc7_fp_header, 2, B(IN1), 100);
                ADD("crc10_iuup_data", M->crc10_iuup_data, 2, B(IN1), 100);
                ADD("crc6_iuup_header", M->crc6_iuup_header, 2, B(IN1), 100);
                ADD("crc32_wimax_ofdma_data", M->crc32_wimax_ofdma_data, 2, B(IN1), 100);
                ADD("crc8_wimax_ofdma_hcs", M->crc8_wimax_ofdma_hcs, 2, B(IN1), 100);
        }
        {
                const char *r_[] = { "src" };
                ADD("hec_32", M->hec_32, 1, B(IN1));
                ADD("hec_64", M->hec_64, 1, B(IN1));
        }
        {
                const char *r_[] = { "key", "ctx", "iv", "aad", "val" };
                ADD("chacha20_poly1305_init", M->chacha20_poly1305_init, 5, B(KEYRAW), B(CTXB + 2048), B(IVB), B(AADB), 20);
        }
        {
                const char *r_[] = { "key", "ctx", "dst", "src", "val" };
                ADD("chacha20_poly1305_enc_update", M->chacha20_poly1305_enc_update, 5, B(KEYRAW), B(CTXB + 2048), B(OUT1), B(IN1), 70);
                ADD("chacha20_poly1305_dec_update", M->chacha20_poly1305_dec_update, 5, B(KEYRAW), B(CTXB + 2048), B(OUT1), B(IN1), 70);
        }
        {
                const char *r_[] = { "ctx", "tag", "val" };
                ADD("chacha20_poly1305_finalize", M->chacha20_poly1305_finalize, 3, B(CTXB + 2048), B(TAGB), 16);
        }
}

/* fresh, valid contents for every region (keys expanded, contexts initialised) */
static void
prepare(hx_rng *g)
{
        hx_fill(g, buf, 65536);
        IMB_AES_KEYEXP_128(M, buf + KEYRAW, buf + EXPENC, buf + EXPDEC);
        IMB_AES128_GCM_PRE(M, buf + KEYRAW, (struct gcm_key_data *) (buf + GKEY));
        IMB_AES128_GCM_INIT(M, (struct gcm_key_data *) (buf + GKEY), (struct gcm_context_data *) (buf + CTXB), buf + IVB, buf + AADB, 20);
        IMB_CHACHA20_POLY1305_INIT(M, buf + KEYRAW, (struct chacha20_poly1305_context_data *) (buf + CTXB + 2048), buf + IVB, buf + AADB, 20);
        IMB_SNOW3G_INIT_KEY_SCHED(M, buf + KEYRAW, (snow3g_key_schedule_t *) (buf + SCHED));
        IMB_KASUMI_INIT_F8_KEY_SCHED(M, buf + KEYRAW, (kasumi_key_sched_t *) (buf + SCHED + 4096));
        IMB_KASUMI_INIT_F9_KEY_SCHED(M, buf + KEYRAW, (kasumi_key_sched_t *) (buf + SCHED + 8192));
        memcpy(pre, buf, 65536);
}

static void
run_case(const dcase *c, int nullarg, hx_rng *g)
{
        uint64_t a[10] = { 0 };
        prepare(g);
        for (int i = 0; i < c->n; i++)
                a[i] = c->a[i];
        if (nullarg >= 0)
                a[nullarg] = 0;
        (void) IMB_QUEUE_SIZE(M); /* resets the manager's and the process-wide error code */
        int sig = sigsetjmp(hx_fault_jmp, 1);
        if (sig == 0) {
                alarm(10);
                hx_in_call = 1;
                ((fn10_t) c->fn)(a[0], a[1], a[2], a[3], a[4], a[5], a[6], a[7], a[8], a[9]);
                hx_in_call = 0;
                alarm(0);
        } else {
                alarm(0);
                free_mb_mgr(M);
                M = hx_mgr_new(V);
        }
        const int err = imb_get_errno(M);
        /* with a NULL argument nothing may have been written to the caller's output regions */
        int untouched = memcmp(buf + OUT1, pre + OUT1, 3 * 1024) == 0 && memcmp(buf + TAGB, pre + TAGB, 256) == 0 &&
                        memcmp(buf + EXPENC, pre + EXPENC, 2048) == 0;
        tr_begin("DArg");
        tr_str("variant", V->name);
        tr_str("fn", c->name);
        tr_int("arg", nullarg);
        tr_str("role", nullarg >= 0 ? c->role[nullarg] : "none");
        tr_int("fault", sig);
        tr_int("errno", err);
        tr_int("untouched", untouched);
        tr_end();
}

int
drv_dargs(int argc, char **argv)
{
        const char *out = NULL, *variant = "sse_t1";
        uint64_t seed = 1;
        for (int i = 0; i < argc; i++) {
                if (!strcmp(argv[i], "--out"))
                        out = argv[++i];
                else if (!strcmp(argv[i], "--variant"))
                        variant = argv[++i];
                else if (!strcmp(argv[i], "--seed"))
                        seed = strtoull(argv[++i], NULL, 0);
        }
        hx_trace = out ? fopen(out, "w") : stdout;
        V = hx_variant_by_name(variant);
        M = V ? hx_mgr_new(V) : NULL;
        if (!M)
                return 2;
        buf = aligned_alloc(64, 65536);
        pre = malloc(65536);
        hx_rng g;
        hx_seed(&g, seed);
        build_table();
        long n = 0;
        for (int k = 0; k < NT; k++) {
                run_case(&T[k], -1, &g);
                n++;
                for (int i = 0; i < T[k].n; i++)
                        if (strcmp(T[k].role[i], "val") != 0) {
                                run_case(&T[k], i, &g);
                                n++;
                        }
        }
        tr_begin("DArgEnd");
        tr_int("n", n);
        tr_int("functions", NT);
        tr_end();
        fclose(hx_trace);
        fprintf(stderr, "{\"cases\":%ld,\"functions\":%d}\n", n, NT);
        return 0;
}
