/* C13: residue scanner. Secrets (keys, derived key material, plaintext) are registered as sets of
 * 8-byte windows (the granularity of the library's own safe-check); targets (register dump, dead stack
 * copy, manager block) are scanned for any of them at any byte offset. Low-entropy windows are not
 * registered (they match padding, counters and zero runs). With random secrets the chance that an
 * unrelated 8-byte string equals one of <= 2^20 windows is < 2^-44 per scanned offset. */
#define WIN 8
#define WIN_DISTINCT 7
#define _GNU_SOURCE
#include "hx.h"
#include <stdlib.h>
#include <string.h>

#define TAB_BITS 21
#define TAB_SIZE (1u << TAB_BITS)
typedef struct {
        uint64_t k;
        const uint8_t *w;   /* copy of the 16-byte window */
        const char *what;
} ent;
static ent *tab;
static uint8_t *pool;
static size_t pool_used, pool_cap;
static int nent;
int sec_hash_text = 1;

static unsigned
hash64(uint64_t k)
{
        return (unsigned) ((k * 0x9E3779B97F4A7C15ULL) >> (64 - TAB_BITS));
}

void
sec_reset(void)
{
        if (!tab)
                tab = calloc(TAB_SIZE, sizeof(ent));
        else
                memset(tab, 0, TAB_SIZE * sizeof(ent));
        pool_used = 0;
        nent = 0;
}

static int
distinct_bytes(const uint8_t *p, int n)
{
        uint8_t seen[32] = { 0 };
        int d = 0;
        for (int i = 0; i < n; i++)
                if (!(seen[p[i] >> 3] & (1 << (p[i] & 7)))) {
                        seen[p[i] >> 3] |= (uint8_t) (1 << (p[i] & 7));
                        d++;
                }
        return d;
}

void
sec_add(const void *ptr, size_t len, const char *what)
{
        if (!tab)
                sec_reset();
        const uint8_t *p = ptr;
        if (!p || len < WIN)
                return;
        if (pool_used + len > pool_cap) {
                /* windows point into the pool: never move it, start a new one */
                pool_cap = (len > (1u << 22) ? len : (1u << 22));
                pool = malloc(pool_cap);
                pool_used = 0;
        }
        uint8_t *c = pool + pool_used;
        memcpy(c, p, len);
        pool_used += len;
        for (size_t i = 0; i + WIN <= len; i++) {
                if (distinct_bytes(c + i, WIN) < WIN_DISTINCT)
                        continue;
                if (nent > (int) (TAB_SIZE * 3 / 4))
                        return;
                uint64_t k;
                memcpy(&k, c + i, 8);
                unsigned h = hash64(k);
                while (tab[h].w)
                        h = (h + 1) & (TAB_SIZE - 1);
                tab[h].k = k;
                tab[h].w = c + i;
                tab[h].what = what;
                nent++;
        }
}

/* scan buf for any registered 16-byte window; returns number of hits, first hit described in what / off */
int
sec_scan(const void *buf, size_t n, const char **what, long *off)
{
        const uint8_t *b = buf;
        int hits = 0;
        if (!tab || nent == 0 || n < WIN)
                return 0;
        for (size_t i = 0; i + WIN <= n; i++) {
                uint64_t k;
                memcpy(&k, b + i, 8);
                if (k == 0)
                        continue;
                unsigned h = hash64(k);
                while (tab[h].w) {
                        if (tab[h].k == k) {
                                if (!hits) {
                                        if (what)
                                                *what = tab[h].what;
                                        if (off)
                                                *off = (long) i;
                                }
                                hits++;
                                i += WIN - 1;
                                break;
                        }
                        h = (h + 1) & (TAB_SIZE - 1);
                }
        }
        return hits;
}

/* general-purpose registers: 8-byte values equal to the first 8 bytes of a registered window */
int
sec_scan_gpr(const uint64_t *g, int n, const char **what)
{
        int hits = 0;
        if (!tab || nent == 0)
                return 0;
        for (int i = 0; i < n; i++) {
                uint64_t k = g[i];
                if (distinct_bytes((const uint8_t *) &k, 8) < 7)
                        continue;
                unsigned h = hash64(k);
                while (tab[h].w) {
                        if (tab[h].k == k) {
                                if (!hits && what)
                                        *what = tab[h].what;
                                hits++;
                                break;
                        }
                        h = (h + 1) & (TAB_SIZE - 1);
                }
        }
        return hits;
}

int
sec_count(void)
{
        return nent;
}

/* register everything secret about a job */
void
sec_add_job(const hx_job *j)
{
        const hx_spec *sp = &j->sp;
        static const char *names[8] = { "key object 0", "key object 1", "key object 2", "key object 3",
                                        "key object 4", "key object 5", "key object 6", "key object 7" };
        if (sp->cm != IMB_CIPHER_NULL)
                sec_add(j->rawkey, (size_t) (sp->kl >= 16 ? sp->kl : 0), "raw cipher key");
        if (j->rawakey_len >= 16)
                sec_add(j->rawakey, j->rawakey_len, "raw authentication key");
        for (int i = 0; i < j->nk && i < 8; i++) {
                const char *nm = names[i];
                /* pointer tables and IVs that live in key objects are not key material */
                const ga_obj *o = ga_find(j->kbuf[i]);
                if (o && (strstr(o->name, "iv") || strstr(o->name, "ptrs") || strstr(o->name, "init") || strstr(o->name, "dust")))
                        continue;
                if (o)
                        nm = o->name;
                sec_add(j->kbuf[i], j->ksize[i], nm);
        }
        /* plaintext: the source of an encrypt job; the destination of a decrypt job is added on return */
        if (sp->cm != IMB_CIPHER_NULL && sp->dir == IMB_DIR_ENCRYPT && sp->len >= 16)
                sec_add(j->src_snapshot + sp->coff, sp->len, "plaintext (encrypt source)");
        /* the message of a hash-only job is text the caller has not ciphered: the library's own safe
         * check (xvalid) fills it with the plain-text pattern too */
        if (sp->cm == IMB_CIPHER_NULL && sp->ha != IMB_AUTH_NULL && sp->hlen >= WIN && sec_hash_text)
                sec_add(j->src_snapshot + sp->hoff, sp->hlen, "text (hash-only message)");
}

void
sec_add_job_output(const hx_job *j)
{
        const hx_spec *sp = &j->sp;
        if (sp->cm != IMB_CIPHER_NULL && sp->dir == IMB_DIR_DECRYPT && sp->len >= 16 && j->dst)
                sec_add(j->dst, sp->len, "plaintext (decrypt destination)");
}
