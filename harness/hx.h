/* Conformance harness core for the TLA+-based verification of intel-ipsec-mb.
 * Everything here is a dumb recorder / replayer: verdicts are taken by TLC on the recorded traces
 * (spec/Trace_*.tla) and by the byte oracles whose result bits are part of the recorded events. */
#ifndef HX_H
#define HX_H
#include <stdint.h>
#include <stddef.h>
#include <stdio.h>
#include <setjmp.h>
#include <intel-ipsec-mb.h>

/* ---------- rng (deterministic, seedable) ---------- */
typedef struct { uint64_t s; } hx_rng;
void hx_seed(hx_rng *r, uint64_t seed);
uint64_t hx_rand(hx_rng *r);
uint32_t hx_below(hx_rng *r, uint32_t n); /* uniform in [0,n) ; n>0 */
void hx_fill(hx_rng *r, void *p, size_t n);
uint64_t hx_mix(uint64_t a, uint64_t b);

/* ---------- guarded arena ---------- */
enum { GA_END = 0, GA_START = 1, GA_SLACK = 2 };
typedef struct {
        uint8_t *page0;   /* first data page */
        size_t npages;
        uint8_t *ptr;     /* user pointer */
        size_t size;
        const char *name; /* static string */
        int owner;        /* job id or -1 */
        int dropped;      /* pages returned to PROT_NONE (owner job was handed back) */
} ga_obj;
void ga_init(void);
void *ga_alloc(size_t size, size_t align, int placement, const char *name, int owner);
void ga_reset(void);
size_t ga_mark(void);           /* current watermark (for partial release) */
void ga_release_to(size_t mark);
int ga_check_canaries(const ga_obj **bad); /* 0 = ok */
const ga_obj *ga_find(const void *addr);    /* object whose pages (or adjacent guard) contain addr */
int ga_count(void);
/* check canaries of objects [first,last) then make their pages inaccessible again; returns 1 on a
 * damaged canary */
int ga_drop(int first, int last);
int ga_drop_list(const int *idx, int n);
extern __thread int ga_tl_idx[64];
extern __thread int ga_tl_n;
const ga_obj *ga_get(int i);

/* ---------- trampoline ---------- */
#define HX_STACK_SCAN 16384
struct hx_tr {
        void *fn;
        uint64_t a[6];
        uint64_t ret;
        uint64_t flags_in;
        uint64_t viol;
        uint64_t exp_rsp;
        uint32_t mxcsr_before, mxcsr_after;
        uint64_t gpr[16];
        uint8_t vec[32 * 64];
        uint8_t *stack_copy;
        uint64_t bad[8];
};
void hx_tramp(struct hx_tr *t);
extern int hx_abi_viol_total;      /* number of calls with a calling-convention violation */
extern uint64_t hx_abi_viol_bits;  /* OR of all violation bits seen */
extern uint64_t hx_calls_total;
extern int hx_dump_regs;           /* when set, calls scrub+dump registers/stack (C13) */
extern struct hx_tr hx_last_tr;
uint64_t hx_call(void *fn, int nargs, ...);
/* a guarded call: returns 0 when the call returned, >0 when it faulted (signal number) */
extern sigjmp_buf hx_fault_jmp;
extern volatile int hx_in_call;
extern volatile void *hx_fault_addr;
void hx_install_handlers(void);

/* ---------- variants ---------- */
typedef struct {
        const char *name;
        int arch;        /* 0 sse, 1 avx2, 2 avx512 */
        uint64_t flags;  /* IMB_FLAG_* for alloc_mb_mgr */
        int exp_type;    /* expected used_arch_type (1..4) */
} hx_variant;
extern const hx_variant hx_variants[];
extern const int hx_nvariants;
const hx_variant *hx_variant_by_name(const char *name);
IMB_MGR *hx_mgr_new(const hx_variant *v);       /* alloc + init, NULL when unavailable */
void hx_mgr_init(IMB_MGR *m, const hx_variant *v);

/* ---------- job catalogue ---------- */
typedef struct {
        int cm;            /* IMB_CIPHER_MODE */
        int kl;            /* key length in bytes */
        int ha;            /* IMB_HASH_ALG */
        int dir;           /* IMB_DIR_* */
        int order;         /* IMB_ORDER_* */
        uint32_t len;      /* bytes to cipher (or, for hash-only jobs, unused) */
        uint32_t hlen;     /* bytes to hash */
        uint32_t coff;     /* cipher start offset in src */
        uint32_t hoff;     /* hash start offset in src */
        uint32_t taglen;   /* requested tag length */
        uint32_t aadlen;
        uint32_t ivlen;
        uint32_t ctrcls;   /* counter class of a 16-byte counter block (0 = random IV), see hx_job_build */
        uint32_t cfail;    /* CUSTOM call-backs: bit 0 cipher reports failure, bit 1 hash reports failure */
        uint32_t pli;      /* PON: payload length indicator written into the XGEM header */
        uint32_t bitadj;   /* for bit-length modes: number of bits removed from the last byte (0..7) */
        int inplace;
        int placement;     /* GA_* */
        uint64_t seed;     /* all random bytes derive from this */
} hx_spec;

typedef struct hx_job {
        hx_spec sp;
        int id;
        IMB_JOB tmpl;         /* caller-owned descriptor fields */
        uint8_t *src;         /* start of the source object */
        size_t src_size;
        uint8_t *dst;         /* start of destination range (== src+coff if in place) */
        size_t dst_size;      /* bytes the library may write */
        uint8_t *tag;
        uint8_t *iv, *aad;
        uint8_t *next_iv;     /* CBCS */
        uint8_t *src_snapshot; /* malloc'ed copy of src taken at build time */
        uint8_t *dst_pre;      /* malloc'ed copy of dst range at build time (out of place) */
        uint8_t tag_pre[IMB_MAX_TAG_LEN + 16];
        void *kbuf[8];        /* key objects */
        size_t ksize[8];
        int nk;
        uint8_t rawkey[64], rawakey[160];
        uint32_t rawakey_len;
        const void *ks_ptr[3]; /* 3DES */
        int src_written_ok;   /* library legitimately writes into src (DOCSIS CRC/PON) */
        int submitted, returned;
        int ga_first, ga_last; /* arena objects of this job (single-threaded drivers) */
        int gobj[32], ngobj;   /* the same as an explicit list (thread-safe) */
        IMB_JOB snap;         /* descriptor snapshot taken right before submit */
} hx_job;

/* families (for schedule generation / level B bookkeeping) */
const char *hx_cipher_name(int cm, int kl, int dir);
const char *hx_hash_name(int ha);
int hx_spec_valid_suite(const hx_spec *sp); /* catalogue can build it */
int hx_job_build(IMB_MGR *keymgr, const hx_spec *sp, int id, hx_job *out); /* 0 ok */
void hx_job_free(hx_job *j);
void hx_job_to_slot(const hx_job *j, IMB_JOB *slot);
/* compare outputs of two jobs built from the same spec: bit0 dst differs, bit1 tag differs,
 * bit2 auxiliary output differs (next_iv, inserted CRC) */
int hx_job_cmp_out(const hx_job *a, const hx_job *b);
int hx_tag_defined(const hx_spec *sp);
uint32_t hx_tag_cmp_len(const hx_spec *sp);
/* checks on a returned job: bit0 source modified, bit1 dst written beyond len, bit2 tag buffer written
 * beyond taglen, bit3 canary */
int hx_job_check_bounds(const hx_job *j);
/* descriptor comparison with the snapshot: returns bitmask of changed named fields; *info gets
 * other changed fields */
int hx_desc_changed(const IMB_JOB *ret, const IMB_JOB *snap, int *info);

/* random spec from a named kind; returns 0 if unknown */
int hx_spec_from_kind(const char *kind, hx_rng *r, hx_spec *sp);
/* random spec for an explicit suite; order 0 = documented default */
int hx_spec_for(int cm, int kl, int ha, int dir, int order, hx_rng *r, hx_spec *sp);
int hx_any_keylen(int cm);
int hx_hash_known(int ha);
/* list of kind names usable on every variant */
extern const char *const hx_kinds[];
extern const int hx_nkinds;
extern long hx_force_len;
extern int hx_data_patterns;
extern uint64_t hx_key_salt;
extern int hx_full_tags;
extern IMB_MGR *hx_exec_mgr;
extern int hx_len_long;
extern int hx_docsis_shape;
extern int hx_custom_fail_rate;

/* run `sp` alone on the oracle manager for variant v; fills out (caller frees). returns status */
int hx_run_alone(const hx_variant *v, const hx_spec *sp, hx_job *out);

/* ---------- reference interpretation (ref.c) ---------- */
/* returns bit0: dst reference available, bit1: tag reference available */
int hx_ref_job(const hx_job *j, uint8_t *rdst, uint8_t *rtag);
void hx_ref_aes_keyexp(const uint8_t *key, int kl, uint8_t *enc, uint8_t *dec);
void hx_ref_cmac_subkeys(const uint8_t *key, int kl, uint8_t k1[16], uint8_t k2[16]);
void hx_ref_xcbc_keys(const uint8_t *key, uint8_t k1[16], uint8_t k2[16], uint8_t k3[16]);

/* ---------- residue scanner (secscan.c) ---------- */
void sec_reset(void);
void sec_add(const void *ptr, size_t len, const char *what);
int sec_scan(const void *buf, size_t n, const char **what, long *off);
int sec_scan_gpr(const uint64_t *g, int n, const char **what);
int sec_count(void);
void sec_add_job(const hx_job *j);
void sec_add_job_output(const hx_job *j);

/* ---------- trace writer ---------- */
extern FILE *hx_trace;
void tr_begin(const char *ev);
void tr_int(const char *k, long long v);
void tr_str(const char *k, const char *v);
void tr_ints(const char *k, const int *v, int n);
void tr_end(void);

#endif
