#define _GNU_SOURCE
#include "hx.h"
#include <stdlib.h>
#include <string.h>

/* ------------------------------------------------------------------ descriptor tables */
enum { KT_NONE, KT_AES, KT_AES_ENC, KT_GCM, KT_DES, KT_DES3, KT_RAW, KT_SNOW3G, KT_KASUMI, KT_SM4,
       KT_SM4GCM };

typedef struct {
        const char *name;
        int cm;
        int kl;
        int kt;
        uint32_t blk;   /* length granularity (bytes) */
        uint32_t minlen;
        uint32_t maxlen;
        uint32_t ivlen;
        int aead_hash;  /* partner hash alg or 0 */
        int bitlen;     /* lengths/offsets expressed in bits */
} cdesc;

static const cdesc ctab[] = {
        { "NULL", IMB_CIPHER_NULL, 0, KT_NONE, 1, 0, 0, 0, 0, 0 },
        { "CBC128", IMB_CIPHER_CBC, 16, KT_AES, 16, 16, 65520, 16, 0, 0 },
        { "CBC192", IMB_CIPHER_CBC, 24, KT_AES, 16, 16, 65520, 16, 0, 0 },
        { "CBC256", IMB_CIPHER_CBC, 32, KT_AES, 16, 16, 65520, 16, 0, 0 },
        { "CTR128", IMB_CIPHER_CNTR, 16, KT_AES_ENC, 1, 1, 1 << 20, 16, 0, 0 },
        { "CTR192", IMB_CIPHER_CNTR, 24, KT_AES_ENC, 1, 1, 1 << 20, 16, 0, 0 },
        { "CTR256", IMB_CIPHER_CNTR, 32, KT_AES_ENC, 1, 1, 1 << 20, 16, 0, 0 },
        { "CTRBIT128", IMB_CIPHER_CNTR_BITLEN, 16, KT_AES_ENC, 1, 1, 1 << 16, 16, 0, 1 },
        { "CTRBIT192", IMB_CIPHER_CNTR_BITLEN, 24, KT_AES_ENC, 1, 1, 1 << 16, 16, 0, 1 },
        { "CTRBIT256", IMB_CIPHER_CNTR_BITLEN, 32, KT_AES_ENC, 1, 1, 1 << 16, 16, 0, 1 },
        { "ECB128", IMB_CIPHER_ECB, 16, KT_AES, 16, 16, 65520, 0, 0, 0 },
        { "ECB192", IMB_CIPHER_ECB, 24, KT_AES, 16, 16, 65520, 0, 0, 0 },
        { "ECB256", IMB_CIPHER_ECB, 32, KT_AES, 16, 16, 65520, 0, 0, 0 },
        { "CFB128", IMB_CIPHER_CFB, 16, KT_AES_ENC, 16, 16, 65520, 16, 0, 0 },
        { "CFB192", IMB_CIPHER_CFB, 24, KT_AES_ENC, 16, 16, 65520, 16, 0, 0 },
        { "CFB256", IMB_CIPHER_CFB, 32, KT_AES_ENC, 16, 16, 65520, 16, 0, 0 },
        { "CBCS128", IMB_CIPHER_CBCS_1_9, 16, KT_AES, 16, 16, 1 << 18, 16, 0, 0 },
        { "DOCSIS128", IMB_CIPHER_DOCSIS_SEC_BPI, 16, KT_AES, 1, 1, 65534, 16, 0, 0 },
        { "DOCSIS256", IMB_CIPHER_DOCSIS_SEC_BPI, 32, KT_AES, 1, 1, 65534, 16, 0, 0 },
        { "DES", IMB_CIPHER_DES, 8, KT_DES, 8, 8, 65528, 8, 0, 0 },
        { "DES3", IMB_CIPHER_DES3, 24, KT_DES3, 8, 8, 65528, 8, 0, 0 },
        { "DOCSISDES", IMB_CIPHER_DOCSIS_DES, 8, KT_DES, 1, 1, 65534, 8, 0, 0 },
        { "CHACHA20", IMB_CIPHER_CHACHA20, 32, KT_RAW, 1, 1, 1 << 20, 12, 0, 0 },
        { "ZUC128", IMB_CIPHER_ZUC_EEA3, 16, KT_RAW, 1, 1, 8188, 16, 0, 0 },
        { "ZUC256", IMB_CIPHER_ZUC_EEA3, 32, KT_RAW, 1, 1, 8188, 25, 0, 0 },
        { "SNOW3G", IMB_CIPHER_SNOW3G_UEA2_BITLEN, 16, KT_SNOW3G, 1, 1, 1 << 16, 16, 0, 1 },
        { "KASUMI", IMB_CIPHER_KASUMI_UEA1_BITLEN, 16, KT_KASUMI, 1, 1, 2500, 8, 0, 1 },
        { "SNOWV", IMB_CIPHER_SNOW_V, 32, KT_RAW, 1, 1, 1 << 18, 16, 0, 0 },
        { "SM4ECB", IMB_CIPHER_SM4_ECB, 16, KT_SM4, 16, 16, 1 << 18, 0, 0, 0 },
        { "SM4CBC", IMB_CIPHER_SM4_CBC, 16, KT_SM4, 16, 16, 65520, 16, 0, 0 },
        { "SM4CTR", IMB_CIPHER_SM4_CNTR, 16, KT_SM4, 1, 1, 1 << 18, 16, 0, 0 },
        /* AEAD */
        { "GCM128", IMB_CIPHER_GCM, 16, KT_GCM, 1, 0, 1 << 20, 12, IMB_AUTH_AES_GMAC, 0 },
        { "GCM192", IMB_CIPHER_GCM, 24, KT_GCM, 1, 0, 1 << 20, 12, IMB_AUTH_AES_GMAC, 0 },
        { "GCM256", IMB_CIPHER_GCM, 32, KT_GCM, 1, 0, 1 << 20, 12, IMB_AUTH_AES_GMAC, 0 },
        { "CCM128", IMB_CIPHER_CCM, 16, KT_AES_ENC, 1, 0, 65534, 13, IMB_AUTH_AES_CCM, 0 },
        { "CCM256", IMB_CIPHER_CCM, 32, KT_AES_ENC, 1, 0, 65534, 13, IMB_AUTH_AES_CCM, 0 },
        { "CHAPOLY", IMB_CIPHER_CHACHA20_POLY1305, 32, KT_RAW, 1, 0, 1 << 20, 12,
          IMB_AUTH_CHACHA20_POLY1305, 0 },
        { "SNOWVAEAD", IMB_CIPHER_SNOW_V_AEAD, 32, KT_RAW, 1, 0, 1 << 18, 16, IMB_AUTH_SNOW_V_AEAD,
          0 },
        { "SM4GCM", IMB_CIPHER_SM4_GCM, 16, KT_SM4GCM, 1, 0, 1 << 18, 12, IMB_AUTH_SM4_GCM, 0 },
        /* caller-supplied cipher: the call-back XORs the range with 0x5a, or reports failure (sp->cfail bit 0) */
        { "CUSTOM", IMB_CIPHER_CUSTOM, 16, KT_NONE, 1, 1, 4096, 0, 0, 0 },
        /* PON: XGEM frame = 8-byte header (PLI, ..., HEC) + payload padded to 4 bytes; AES-CTR over the payload,
         * Ethernet CRC inside the payload and BIP over the frame done together with it */
        { "PON", IMB_CIPHER_PON_AES_CNTR, 16, KT_AES_ENC, 4, 0, 2048, 16, IMB_AUTH_PON_CRC_BIP, 0 },
};
#define NCTAB ((int) (sizeof(ctab) / sizeof(ctab[0])))

enum { HT_NONE, HT_HMAC, HT_XCBC, HT_CMAC128, HT_CMAC256, HT_GMAC, HT_GHASH, HT_POLY, HT_ZUC,
       HT_ZUC256, HT_SNOW3G, HT_KASUMI, HT_AEAD };

typedef struct {
        const char *name;
        int ha;
        int ht;
        uint32_t full;    /* full tag length */
        uint32_t trunc;   /* alternative permitted (truncated) tag length, 0 = none */
        uint32_t minlen;  /* min message length (bytes) */
        uint32_t maxlen;
        uint32_t blk;     /* hash block size (for length classes) */
        uint32_t kl;      /* key length for GMAC etc */
        int anytag;       /* tag length 1..full permitted */
        int bitlen;       /* msg_len_to_hash in bits */
} hdesc;

static const hdesc htab[] = {
        { "NULL", IMB_AUTH_NULL, HT_NONE, 0, 0, 0, 0, 1, 0, 0, 0 },
        { "HMAC1", IMB_AUTH_HMAC_SHA_1, HT_HMAC, 20, 12, 1, 65534, 64, 0, 0, 0 },
        { "HMAC224", IMB_AUTH_HMAC_SHA_224, HT_HMAC, 28, 14, 1, 65534, 64, 0, 0, 0 },
        { "HMAC256", IMB_AUTH_HMAC_SHA_256, HT_HMAC, 32, 16, 1, 65534, 64, 0, 0, 0 },
        { "HMAC384", IMB_AUTH_HMAC_SHA_384, HT_HMAC, 48, 24, 1, 65534, 128, 0, 0, 0 },
        { "HMAC512", IMB_AUTH_HMAC_SHA_512, HT_HMAC, 64, 32, 1, 65534, 128, 0, 0, 0 },
        { "HMACMD5", IMB_AUTH_MD5, HT_HMAC, 16, 12, 1, 65534, 64, 0, 0, 0 },
        { "SHA1", IMB_AUTH_SHA_1, HT_NONE, 20, 0, 0, 65534, 64, 0, 0, 0 },
        { "SHA224", IMB_AUTH_SHA_224, HT_NONE, 28, 0, 0, 65534, 64, 0, 0, 0 },
        { "SHA256", IMB_AUTH_SHA_256, HT_NONE, 32, 0, 0, 65534, 64, 0, 0, 0 },
        { "SHA384", IMB_AUTH_SHA_384, HT_NONE, 48, 0, 0, 65534, 128, 0, 0, 0 },
        { "SHA512", IMB_AUTH_SHA_512, HT_NONE, 64, 0, 0, 65534, 128, 0, 0, 0 },
        { "XCBC", IMB_AUTH_AES_XCBC, HT_XCBC, 12, 0, 0, 65534, 16, 0, 0, 0 },
        { "CMAC", IMB_AUTH_AES_CMAC, HT_CMAC128, 16, 0, 0, 65534, 16, 0, 1, 0 },
        { "CMACBIT", IMB_AUTH_AES_CMAC_BITLEN, HT_CMAC128, 16, 0, 0, 8190, 16, 0, 1, 1 },
        { "CMAC256", IMB_AUTH_AES_CMAC_256, HT_CMAC256, 16, 0, 0, 65534, 16, 0, 1, 0 },
        { "GMAC128", IMB_AUTH_AES_GMAC_128, HT_GMAC, 16, 0, 0, 1 << 18, 16, 16, 1, 0 },
        { "GMAC192", IMB_AUTH_AES_GMAC_192, HT_GMAC, 16, 0, 0, 1 << 18, 16, 24, 1, 0 },
        { "GMAC256", IMB_AUTH_AES_GMAC_256, HT_GMAC, 16, 0, 0, 1 << 18, 16, 32, 1, 0 },
        { "GHASH", IMB_AUTH_GHASH, HT_GHASH, 16, 0, 0, 1 << 18, 16, 16, 1, 0 },
        { "POLY", IMB_AUTH_POLY1305, HT_POLY, 16, 0, 0, 1 << 18, 16, 32, 0, 0 },
        { "ZUCEIA3", IMB_AUTH_ZUC_EIA3_BITLEN, HT_ZUC, 4, 0, 1, 8188, 4, 16, 0, 1 },
        { "ZUC256EIA3", IMB_AUTH_ZUC256_EIA3_BITLEN, HT_ZUC256, 4, 0, 1, 8188, 4, 32, 0, 1 },
        { "SNOW3GUIA2", IMB_AUTH_SNOW3G_UIA2_BITLEN, HT_SNOW3G, 4, 0, 1, 1 << 16, 4, 16, 0, 1 },
        { "KASUMIUIA1", IMB_AUTH_KASUMI_UIA1, HT_KASUMI, 4, 0, 9, 2500, 8, 16, 0, 0 },
        { "SM3", IMB_AUTH_SM3, HT_NONE, 32, 0, 0, 1 << 18, 64, 0, 1, 0 },
        { "HMACSM3", IMB_AUTH_HMAC_SM3, HT_HMAC, 32, 0, 1, 1 << 18, 64, 0, 1, 0 },
        { "CRC32ETH", IMB_AUTH_CRC32_ETHERNET_FCS, HT_NONE, 4, 0, 0, 1 << 18, 16, 0, 0, 0 },
        { "CRC32SCTP", IMB_AUTH_CRC32_SCTP, HT_NONE, 4, 0, 0, 1 << 18, 16, 0, 0, 0 },
        { "CRC32WIMAX", IMB_AUTH_CRC32_WIMAX_OFDMA_DATA, HT_NONE, 4, 0, 0, 1 << 18, 16, 0, 0, 0 },
        { "CRC24LTEA", IMB_AUTH_CRC24_LTE_A, HT_NONE, 4, 0, 0, 1 << 18, 16, 0, 0, 0 },
        { "CRC24LTEB", IMB_AUTH_CRC24_LTE_B, HT_NONE, 4, 0, 0, 1 << 18, 16, 0, 0, 0 },
        { "CRC16X25", IMB_AUTH_CRC16_X25, HT_NONE, 4, 0, 0, 1 << 18, 16, 0, 0, 0 },
        { "CRC16FP", IMB_AUTH_CRC16_FP_DATA, HT_NONE, 4, 0, 0, 1 << 18, 16, 0, 0, 0 },
        { "CRC11FP", IMB_AUTH_CRC11_FP_HEADER, HT_NONE, 4, 0, 0, 1 << 18, 16, 0, 0, 0 },
        { "CRC10IUUP", IMB_AUTH_CRC10_IUUP_DATA, HT_NONE, 4, 0, 0, 1 << 18, 16, 0, 0, 0 },
        { "CRC8WIMAX", IMB_AUTH_CRC8_WIMAX_OFDMA_HCS, HT_NONE, 4, 0, 0, 1 << 18, 16, 0, 0, 0 },
        { "CRC7FP", IMB_AUTH_CRC7_FP_HEADER, HT_NONE, 4, 0, 0, 1 << 18, 16, 0, 0, 0 },
        { "CRC6IUUP", IMB_AUTH_CRC6_IUUP_HEADER, HT_NONE, 4, 0, 0, 1 << 18, 16, 0, 0, 0 },
        /* caller-supplied hash: 16-byte XOR fold of the message, or failure (sp->cfail bit 1) */
        { "CUSTOMH", IMB_AUTH_CUSTOM, HT_NONE, 16, 0, 0, 4096, 16, 0, 0, 0 },
        /* AEAD partners (never chosen on their own) */
        { "GMAC", IMB_AUTH_AES_GMAC, HT_AEAD, 16, 0, 0, 0, 16, 0, 1, 0 },
        { "CCMMAC", IMB_AUTH_AES_CCM, HT_AEAD, 16, 0, 0, 0, 16, 0, 0, 0 },
        { "POLYAEAD", IMB_AUTH_CHACHA20_POLY1305, HT_AEAD, 16, 0, 0, 0, 16, 0, 0, 0 },
        { "SNOWVMAC", IMB_AUTH_SNOW_V_AEAD, HT_AEAD, 16, 0, 0, 0, 16, 0, 0, 0 },
        { "SM4GMAC", IMB_AUTH_SM4_GCM, HT_AEAD, 16, 0, 0, 0, 16, 0, 1, 0 },
        { "DOCSISCRC", IMB_AUTH_DOCSIS_CRC32, HT_AEAD, 4, 0, 0, 0, 16, 0, 0, 0 },
        { "PONCRCBIP", IMB_AUTH_PON_CRC_BIP, HT_AEAD, 8, 0, 0, 0, 16, 0, 0, 0 },
};
#define NHTAB ((int) (sizeof(htab) / sizeof(htab[0])))

static const cdesc *
cfind(int cm, int kl)
{
        for (int i = 0; i < NCTAB; i++)
                if (ctab[i].cm == cm && (ctab[i].kl == kl || cm == IMB_CIPHER_NULL))
                        return &ctab[i];
        return NULL;
}
static const hdesc *
hfind(int ha)
{
        for (int i = 0; i < NHTAB; i++)
                if (htab[i].ha == ha)
                        return &htab[i];
        return NULL;
}

const char *
hx_cipher_name(int cm, int kl, int dir)
{
        static char buf[4][32];
        static int k;
        const cdesc *c = cfind(cm, kl);
        char *b = buf[k++ & 3];
        if (!c)
                snprintf(b, 32, "C%d_%d", cm, kl);
        else if (cm == IMB_CIPHER_NULL)
                snprintf(b, 32, "NULL");
        else
                snprintf(b, 32, "%s%c", c->name, dir == IMB_DIR_ENCRYPT ? 'E' : 'D');
        return b;
}
const char *
hx_hash_name(int ha)
{
        const hdesc *h = hfind(ha);
        return h ? h->name : "H?";
}

int
hx_spec_valid_suite(const hx_spec *sp)
{
        return cfind(sp->cm, sp->kl) && hfind(sp->ha);
}

/* ------------------------------------------------------------------ kinds */
/* Kind names: "<cipher><E|D>" | "<cipher><E|D>+<hash>" | "+<hash>" ; optional ":CH" / ":HC" */
const char *const hx_kinds[] = {
        /* OOO cipher families */
        "CBC128E", "CBC192E", "CBC256E", "CBCS128E", "CFB128E", "CFB192E", "CFB256E", "DOCSIS128E",
        "DOCSIS256E", "DOCSIS128D", "DES-E", "DES-D", "DES3-E", "DES3-D", "DOCSISDES-E",
        "DOCSISDES-D", "ZUC128E", "ZUC256E", "SNOW3GE",
        /* immediate ciphers */
        "CBC128D", "CBC192D", "CBC256D", "CBCS128D", "CTR128E", "CTR192E", "CTR256E", "CTRBIT128E",
        "ECB128E", "ECB192D", "ECB256E", "CFB128D", "CFB256D", "CHACHA20E", "KASUMIE", "SNOWVE",
        "SM4ECBE", "SM4CBCE", "SM4CBCD", "SM4CTRE",
        /* OOO hash families */
        "+HMAC1", "+HMAC224", "+HMAC256", "+HMAC384", "+HMAC512", "+HMACMD5", "+SHA1", "+SHA224",
        "+SHA256", "+SHA384", "+SHA512", "+XCBC", "+CMAC", "+CMACBIT", "+CMAC256", "+ZUCEIA3",
        "+ZUC256EIA3", "+SNOW3GUIA2",
        /* immediate hashes */
        "+GMAC128", "+GMAC192", "+GMAC256", "+GHASH", "+POLY", "+KASUMIUIA1", "+SM3", "+HMACSM3",
        "+CRC32ETH", "+CRC32SCTP", "+CRC32WIMAX", "+CRC24LTEA", "+CRC24LTEB", "+CRC16X25",
        "+CRC16FP", "+CRC11FP", "+CRC10IUUP", "+CRC8WIMAX", "+CRC7FP", "+CRC6IUUP",
        /* AEAD */
        "GCM128E", "GCM192D", "GCM256E", "GCM128D", "CCM128E", "CCM128D", "CCM256E", "CHAPOLYE",
        "CHAPOLYD", "SNOWVAEADE", "SM4GCME", "SM4GCMD", "PONE", "POND", "DOCSIS128E+DOCSISCRC",
        "DOCSIS128D+DOCSISCRC", "DOCSIS256E+DOCSISCRC",
        /* chained: two OOO managers for one job, both orders */
        "CBC128E+HMAC1", "CBC128D+HMAC1", "CBC256E+HMAC256", "CBC192E+HMAC512", "CBC128E+XCBC",
        "CBC256E+CMAC", "CTR128E+HMAC1", "CTR256E+HMAC384", "CBC128E+SHA256", "DES-E+HMACMD5",
        "DES3-E+HMAC1", "CFB128E+HMAC224", "ZUC128E+ZUCEIA3", "SNOW3GE+SNOW3GUIA2",
        "CBC128E+HMAC1:HC", "CBC128D+HMAC1:CH", "CTR128E+CMAC:HC",
        "CHACHA20E+POLY", "ECB128E+SHA1", "CBCS128E+HMAC256", "DOCSIS128E+HMAC1",
        /* decrypt direction / remaining key sizes of the symmetric stream modes (own rows of the dispatch tables) */
        "CTR128D", "CTR256D", "ECB128D", "ECB192E", "ECB256D", "CTRBIT192E", "CTRBIT256E", "CTRBIT128D", "ZUC128D", "ZUC256D", "SNOW3GD", "KASUMID",
        "CHACHA20D", "SNOWVD", "SM4ECBD", "SM4CTRD", "DOCSIS256D", "SNOWVAEADD", "CCM256D", "GCM192E", "GCM256D",
        "DOCSIS256D+DOCSISCRC",
        "CUSTOME", "+CUSTOMH", "CUSTOME+HMAC1:HC", "CUSTOMD+HMAC256", "CUSTOME+CUSTOMH", "CBC128E+CUSTOMH",
};
const int hx_nkinds = (int) (sizeof(hx_kinds) / sizeof(hx_kinds[0]));

int hx_custom_fail_rate; /* when n > 0: one CUSTOM call-back in n reports failure (schedule drivers only) */

static int
custom_cipher_ok(IMB_JOB *job)
{
        const uint8_t *s = job->src + job->cipher_start_src_offset_in_bytes;
        for (uint64_t i = 0; i < job->msg_len_to_cipher_in_bytes; i++)
                job->dst[i] = (uint8_t) (s[i] ^ 0x5a);
        return 0;
}

static int
custom_hash_ok(IMB_JOB *job)
{
        const uint8_t *s = job->src + job->hash_start_src_offset_in_bytes;
        uint8_t acc[16] = { 0 };
        for (uint64_t i = 0; i < job->msg_len_to_hash_in_bytes; i++)
                acc[i & 15] = (uint8_t) (acc[i & 15] * 3 + s[i] + 1);
        memcpy(job->auth_tag_output, acc, job->auth_tag_output_len_in_bytes > 16 ? 16 : job->auth_tag_output_len_in_bytes);
        return 0;
}

static int
custom_fail(IMB_JOB *job)
{
        (void) job;
        return 1;
}

int hx_docsis_shape = -1; /* DOCSIS+CRC32: 0 cipher without CRC, 1 CRC without cipher, 2 both, -1 random */
int hx_len_long; /* when set: lengths 520..3520 */
int hx_full_tags;
/* the manager that will execute the job when another manager's helpers prepare the keys (reference driver, interchange):
 * GCM / GMAC / GHASH key data is laid out per architecture (union in struct gcm_key_data) and is not portable */
IMB_MGR *hx_exec_mgr;
uint64_t hx_key_salt; /* non-zero: keys are drawn from this salt instead of the job's seed */
int hx_data_patterns; /* set by the reference and cross-variant drivers: structured messages / keys for some seeds */
long hx_force_len = -1; /* when >= 0 every generated message length is this value (rounded to the mode's granularity) */

static uint32_t
pick_len(hx_rng *r, uint32_t blk, uint32_t minlen, uint32_t maxlen, uint32_t hashblk)
{
        uint32_t cls = hx_below(r, 100), n;
        if (maxlen == 0)
                return 0;
        if (hx_force_len >= 0) {
                n = (uint32_t) hx_force_len;
                if (blk > 1)
                        n = (n + blk - 1) / blk * blk;
                if (n < minlen)
                        n = minlen;
                if (n > maxlen)
                        n = maxlen / blk * blk;
                return n;
        }
        if (hx_len_long) /* every job several blocks long and all different: no lane idles at length 0 */
                n = 520 + hx_below(r, 3000);
        else if (cls < 45) /* small: 1..6 units */
                n = (1 + hx_below(r, 6)) * (blk > 1 ? blk : 16) - (blk > 1 ? 0 : hx_below(r, 16));
        else if (cls < 75) /* padding thresholds / block boundaries */
        {
                static const int d[] = { -9, -8, -1, 0, 1, 7, 8, 9 };
                uint32_t b = hashblk ? hashblk : 64;
                int v = (int) (b * (1 + hx_below(r, 4))) + d[hx_below(r, 8)];
                n = v < 1 ? 1 : (uint32_t) v;
        } else if (cls < 86)
                n = 1 + hx_below(r, 2048);
        else if (cls < 95) {
                /* whole kernel chunks: the wide kernels work in steps of 8 / 16 / 32 / 48 blocks, and "nothing left for the
                 * tail" is a path of its own */
                static const uint32_t chunk[] = { 128, 256, 512, 768, 1024 };
                static const int dd[] = { 0, 0, 0, 0, -1, 1, 16, -16 };
                const uint32_t c = chunk[hx_below(r, 5)];
                const uint32_t k = 1 + hx_below(r, 4096 / c);
                int v = (int) (c * k) + dd[hx_below(r, 8)];
                n = v < 1 ? 1 : (uint32_t) v;
        } else
                n = 2048 + hx_below(r, 14000);
        if (blk > 1)
                n = (n + blk - 1) / blk * blk;
        if (n < minlen)
                n = minlen ? minlen : 0;
        if (n > maxlen)
                n = maxlen / blk * blk;
        return n;
}

static int
spec_fill(const cdesc *c, const hdesc *h, int dir, int order_override, hx_rng *r, hx_spec *sp)
{
        sp->cm = c->cm;
        sp->kl = c->kl;
        sp->ha = h->ha;
        sp->dir = dir;
        sp->seed = hx_rand(r);
        sp->inplace = hx_below(r, 2);
        sp->placement = hx_below(r, 4) == 0 ? GA_START : GA_END;
        sp->ivlen = c->ivlen;
        if (c->cm == IMB_CIPHER_CNTR && hx_below(r, 3) == 0)
                sp->ivlen = 12;
        if (c->cm == IMB_CIPHER_ZUC_EEA3 && c->kl == 32 && hx_below(r, 2))
                sp->ivlen = 23;
        if (c->cm == IMB_CIPHER_SM4_CNTR && hx_below(r, 3) == 0)
                sp->ivlen = 12;

        if (hx_custom_fail_rate > 0) {
                if (c->cm == IMB_CIPHER_CUSTOM && hx_below(r, (uint32_t) hx_custom_fail_rate) == 0)
                        sp->cfail |= 1;
                if (h->ha == IMB_AUTH_CUSTOM && hx_below(r, (uint32_t) hx_custom_fail_rate) == 0)
                        sp->cfail |= 2;
        }
        if ((c->cm == IMB_CIPHER_CNTR || c->cm == IMB_CIPHER_CNTR_BITLEN || c->cm == IMB_CIPHER_SM4_CNTR) && sp->ivlen == 16 &&
            hx_below(r, 3) == 0)
                sp->ctrcls = 1 + hx_below(r, 3);
        /* default order as the documentation recommends */
        if (c->cm == IMB_CIPHER_NULL)
                sp->order = IMB_ORDER_HASH_CIPHER;
        else if (c->cm == IMB_CIPHER_CCM || h->ha == IMB_AUTH_DOCSIS_CRC32 || h->ha == IMB_AUTH_PON_CRC_BIP)
                sp->order = dir == IMB_DIR_ENCRYPT ? IMB_ORDER_HASH_CIPHER : IMB_ORDER_CIPHER_HASH;
        else
                sp->order = dir == IMB_DIR_ENCRYPT ? IMB_ORDER_CIPHER_HASH : IMB_ORDER_HASH_CIPHER;
        if (order_override)
                sp->order = order_override;

        /* lengths */
        if (c->cm != IMB_CIPHER_NULL) {
                sp->len = pick_len(r, c->blk, c->minlen, c->maxlen > 16384 ? 16384 : c->maxlen,
                                   h->blk);
                if (c->aead_hash && hx_below(r, 12) == 0 && hx_force_len < 0)
                        sp->len = 0;
                if (c->bitlen)
                        sp->bitadj = hx_below(r, 8);
                sp->coff = hx_below(r, 3) ? 0 : hx_below(r, 40);
                /* SNOW3G/KASUMI bit-length modes apply the (bit) offset to src *and* dst, unlike all
                 * other modes; the catalogue uses offset 0 for them (see DESIGN.md, calibration) */
                if (c->cm == IMB_CIPHER_SNOW3G_UEA2_BITLEN || c->cm == IMB_CIPHER_KASUMI_UEA1_BITLEN)
                        sp->coff = 0;
                /* CBCS 1:9 writes only the encrypted blocks: defined for in-place use only */
                if (c->cm == IMB_CIPHER_CBCS_1_9)
                        sp->inplace = 1;
                /* PON: destination = source + cipher offset by definition, whatever hash is named */
                if (c->cm == IMB_CIPHER_PON_AES_CNTR) {
                        sp->inplace = 1;
                        sp->coff = 8;
                        if (sp->len < 4)
                                sp->len = 4;
                }
        }
        if (h->ha != IMB_AUTH_NULL) {
                /* tag length */
                sp->taglen = h->full;
                if (h->trunc && hx_below(r, 2))
                        sp->taglen = h->trunc;
                if (h->anytag && hx_below(r, 2))
                        sp->taglen = 1 + hx_below(r, h->full);
                if (h->ha == IMB_AUTH_ZUC256_EIA3_BITLEN) {
                        static const uint32_t t[] = { 4, 8, 16 };
                        sp->taglen = t[hx_below(r, 3)];
                }
                if (h->ha == IMB_AUTH_AES_CCM)
                        sp->taglen = 4 + 2 * hx_below(r, 7);
                if (hx_full_tags) /* (drv_keydiff: the whole MAC value is handed out, so all of it is public) */
                        sp->taglen = (h->ha == IMB_AUTH_ZUC256_EIA3_BITLEN || h->ha == IMB_AUTH_AES_CCM) ? 16 : h->full;
                if (h->ht == HT_AEAD) {
                        switch (h->ha) {
                        case IMB_AUTH_AES_GMAC:
                        case IMB_AUTH_SM4_GCM:
                                sp->aadlen = hx_below(r, 4) ? hx_below(r, 64) : hx_below(r, 600);
                                sp->hlen = sp->len;
                                if (h->ha == IMB_AUTH_AES_GMAC && c->cm == IMB_CIPHER_GCM &&
                                    hx_below(r, 5) == 0)
                                        sp->ivlen = 1 + hx_below(r, 64);
                                break;
                        case IMB_AUTH_AES_CCM:
                                sp->aadlen = hx_below(r, 47);
                                if (c->cm == IMB_CIPHER_CCM)
                                        sp->ivlen = 7 + hx_below(r, 7);
                                sp->hlen = sp->len;
                                sp->hoff = sp->coff;
                                break;
                        case IMB_AUTH_CHACHA20_POLY1305:
                        case IMB_AUTH_SNOW_V_AEAD:
                                sp->aadlen = hx_below(r, 4) ? hx_below(r, 64) : hx_below(r, 600);
                                sp->hlen = sp->len;
                                sp->hoff = sp->coff;
                                break;
                        case IMB_AUTH_PON_CRC_BIP: {
                                if (c->cm != IMB_CIPHER_PON_AES_CNTR) {
                                        sp->hlen = 8 + ((sp->len + 3) & ~3u);
                                        sp->hoff = sp->coff;
                                        break;
                                }
                                /* PLI = payload length; the ciphered range is the payload padded to 4 bytes */
                                uint32_t pli = hx_below(r, 6) == 0 ? hx_below(r, 6) : 5 + hx_below(r, hx_below(r, 2) ? 80 : 1500);
                                if (hx_force_len >= 0)
                                        pli = (uint32_t) hx_force_len > 2040 ? 2040 : (uint32_t) hx_force_len;
                                sp->pli = pli;
                                sp->len = (pli + 3) & ~3u;
                                sp->hoff = 0;
                                sp->coff = 8;
                                sp->hlen = 8 + sp->len;
                                sp->inplace = 1;
                                break;
                        }
                        case IMB_AUTH_DOCSIS_CRC32: {
                                if (c->cm != IMB_CIPHER_DOCSIS_SEC_BPI) {
                                        /* mismatched pairing (to be rejected): keep the cipher part valid */
                                        sp->hlen = sp->len ? sp->len : 16;
                                        sp->hoff = sp->coff;
                                        break;
                                }
                                /* ethernet PDU: hash range = frame without CRC, cipher starts 12
                                 * bytes in and covers the rest incl. the 4 CRC bytes */
                                uint32_t frame = 14 + hx_below(r, 1500); /* without CRC */
                                sp->hoff = hx_below(r, 3) ? 0 : hx_below(r, 16);
                                sp->hlen = frame;
                                sp->coff = sp->hoff + 12;
                                sp->len = frame - 12 + 4;
                                sp->inplace = 1;
                                if (hx_force_len < 0 || hx_docsis_shape >= 0) {
                                        /* the two other valid shapes: cipher without CRC (hash length 0) and
                                         * CRC without cipher (cipher length 0) */
                                        uint32_t shape = hx_below(r, 8);
                                        if (hx_docsis_shape >= 0)
                                                shape = (uint32_t) hx_docsis_shape;
                                        if (shape == 0) {
                                                sp->hlen = 0;
                                                sp->hoff = 0;
                                                sp->coff = hx_below(r, 3) ? 0 : hx_below(r, 24);
                                                sp->len = 1 + hx_below(r, hx_below(r, 2) ? 64 : 1500);
                                        } else if (shape == 1)
                                                sp->len = 0;
                                }
                                break;
                        }
                        }
                } else {
                        uint32_t mx = h->maxlen > 16384 ? 16384 : h->maxlen;
                        if (c->cm != IMB_CIPHER_NULL && hx_below(r, 3)) {
                                /* hash covers the ciphered range plus a short header */
                                uint32_t hdr = hx_below(r, sp->coff + 1);
                                sp->hoff = sp->coff - hdr;
                                sp->hlen = hdr + (c->bitlen ? sp->len : sp->len);
                                if (sp->hlen < h->minlen)
                                        sp->hlen = h->minlen;
                                if (sp->hlen > mx)
                                        sp->hlen = mx;
                        } else {
                                sp->hlen = pick_len(r, 1, h->minlen, mx, h->blk);
                                sp->hoff = hx_below(r, 3) ? 0 : hx_below(r, 40);
                        }
                        if (h->bitlen)
                                sp->bitadj = sp->bitadj ? sp->bitadj : hx_below(r, 8);
                }
        }
        return 1;
}

int
hx_spec_for(int cm, int kl, int ha, int dir, int order, hx_rng *r, hx_spec *sp)
{
        const cdesc *c = cfind(cm, kl);
        const hdesc *h = hfind(ha);
        memset(sp, 0, sizeof(*sp));
        if (!c || !h)
                return 0;
        return spec_fill(c, h, dir, order, r, sp);
}

/* any catalogue key length for this mode (0 if the mode is not in the catalogue) */
int
hx_any_keylen(int cm)
{
        for (int i = 0; i < NCTAB; i++)
                if (ctab[i].cm == cm)
                        return ctab[i].kl;
        return -1;
}
int
hx_hash_known(int ha)
{
        return hfind(ha) != NULL;
}
int
hx_spec_from_kind(const char *kind, hx_rng *r, hx_spec *sp)
{
        char cbuf[40], hbuf[40];
        const char *plus = strchr(kind, '+');
        const char *colon = strchr(kind, ':');
        size_t cl = plus ? (size_t) (plus - kind) : (colon ? (size_t) (colon - kind) : strlen(kind));
        if (cl >= sizeof(cbuf))
                return 0;
        memcpy(cbuf, kind, cl);
        cbuf[cl] = 0;
        hbuf[0] = 0;
        if (plus) {
                size_t hl = colon ? (size_t) (colon - plus - 1) : strlen(plus + 1);
                if (hl >= sizeof(hbuf))
                        return 0;
                memcpy(hbuf, plus + 1, hl);
                hbuf[hl] = 0;
        }
        memset(sp, 0, sizeof(*sp));
        int order_override = 0;
        const cdesc *c = NULL;
        int dir = IMB_DIR_ENCRYPT;
        if (cl == 0) {
                c = &ctab[0];
        } else {
                char d = cbuf[cl - 1];
                if (d != 'E' && d != 'D')
                        return 0;
                dir = d == 'E' ? IMB_DIR_ENCRYPT : IMB_DIR_DECRYPT;
                cbuf[--cl] = 0;
                if (cl && cbuf[cl - 1] == '-')
                        cbuf[--cl] = 0;
                for (int i = 0; i < NCTAB; i++)
                        if (strcmp(ctab[i].name, cbuf) == 0)
                                c = &ctab[i];
                if (!c)
                        return 0;
        }
        const hdesc *h = NULL;
        if (hbuf[0]) {
                for (int i = 0; i < NHTAB; i++)
                        if (strcmp(htab[i].name, hbuf) == 0)
                                h = &htab[i];
                if (!h)
                        return 0;
        } else if (c->aead_hash)
                h = hfind(c->aead_hash);
        else
                h = &htab[0];

        if (colon) {
                if (strcmp(colon, ":CH") == 0)
                        order_override = IMB_ORDER_CIPHER_HASH;
                else if (strcmp(colon, ":HC") == 0)
                        order_override = IMB_ORDER_HASH_CIPHER;
                else
                        return 0;
        }
        return spec_fill(c, h, dir, order_override, r, sp);
}

/* ------------------------------------------------------------------ job construction */
static void *
kalloc(hx_job *j, size_t size, size_t align, const char *name)
{
        void *p = ga_alloc(size, align, j->sp.placement == GA_START ? GA_START : GA_END, name, j->id);
        j->kbuf[j->nk] = p;
        j->ksize[j->nk] = size;
        j->nk++;
        return p;
}

int
hx_job_build(IMB_MGR *mgr, const hx_spec *sp, int id, hx_job *j)
{
        const cdesc *c = cfind(sp->cm, sp->kl);
        const hdesc *h = hfind(sp->ha);
        if (!c || !h)
                return -1;
        memset(j, 0, sizeof(*j));
        j->sp = *sp;
        j->id = id;
        j->ga_first = ga_count();
        ga_tl_n = 0;
        hx_rng r;
        hx_seed(&r, sp->seed);
        IMB_JOB *t = &j->tmpl;
        const int pl = sp->placement;

        /* --- source object --- */
        uint32_t cbytes = sp->len, hbytes = sp->hlen;
        size_t total = 0;
        if (sp->cm != IMB_CIPHER_NULL && (size_t) sp->coff + cbytes > total)
                total = (size_t) sp->coff + cbytes;
        if (sp->ha != IMB_AUTH_NULL && h->ht != HT_AEAD && (size_t) sp->hoff + hbytes > total)
                total = (size_t) sp->hoff + hbytes;
        if (sp->ha == IMB_AUTH_DOCSIS_CRC32 && (size_t) sp->hoff + hbytes + 4 > total)
                total = (size_t) sp->hoff + hbytes + 4;
        if (total == 0)
                total = 1;
        j->src_size = total;
        j->src = ga_alloc(total, 1, pl, "src", id);
        hx_fill(&r, j->src, total);
        /* structured data (reference / cross-variant drivers only): carries in the wide accumulators of the MAC
         * kernels need extreme limb values that random bytes never produce */
        const unsigned dpat = hx_data_patterns ? (unsigned) ((sp->seed >> 41) % 24) : 99;
        const unsigned kpat = hx_data_patterns ? (unsigned) ((sp->seed >> 47) % 6) : 99;
        const int framed = sp->cm == IMB_CIPHER_PON_AES_CNTR || sp->ha == IMB_AUTH_DOCSIS_CRC32 || sp->ha == IMB_AUTH_PON_CRC_BIP;
        if (!framed) {
                if (dpat == 0 || (sp->ha == IMB_AUTH_POLY1305 && kpat <= 1))
                        memset(j->src, 0xff, total);
                else if (dpat == 1)
                        memset(j->src, 0x00, total);
                else if (dpat == 2 && total >= 16) {
                        /* blocks with a run of low one-bits ending at a limb boundary (26 / 44 / 52 / 64 / 88 bits ...) */
                        static const unsigned nb[] = { 26, 44, 45, 52, 64, 65, 88, 89, 104, 127 };
                        memset(j->src, 0, total);
                        for (size_t b = 0; b + 16 <= total; b += 16 * (1 + hx_below(&r, 3))) {
                                unsigned n = nb[hx_below(&r, 10)];
                                for (unsigned i = 0; i < n; i++)
                                        j->src[b + i / 8] |= (uint8_t) (1u << (i % 8));
                        }
                }
        }
        if (sp->cm == IMB_CIPHER_PON_AES_CNTR && sp->ha == IMB_AUTH_PON_CRC_BIP && total >= (size_t) sp->hoff + 8) {
                /* XGEM header: 14 most significant bits = PLI */
                j->src[sp->hoff] = (uint8_t) (sp->pli >> 6);
                j->src[sp->hoff + 1] = (uint8_t) ((j->src[sp->hoff + 1] & 0x03) | ((sp->pli & 0x3f) << 2));
        }
        j->src_snapshot = malloc(total);
        memcpy(j->src_snapshot, j->src, total);

        /* --- destination --- */
        if (sp->cm != IMB_CIPHER_NULL) {
                j->dst_size = cbytes;
                if (sp->inplace)
                        j->dst = j->src + sp->coff;
                else {
                        j->dst = ga_alloc(cbytes ? cbytes : 1, 1, pl, "dst", id);
                        hx_rng r2;
                        hx_seed(&r2, sp->seed ^ 0x5a5a);
                        hx_fill(&r2, j->dst, cbytes ? cbytes : 1);
                        j->dst_pre = malloc(cbytes ? cbytes : 1);
                        memcpy(j->dst_pre, j->dst, cbytes ? cbytes : 1);
                }
        }
        /* --- iv, aad, tag --- */
        if (sp->ivlen) {
                j->iv = ga_alloc(sp->ivlen, 1, pl, "iv", id);
                hx_fill(&r, j->iv, sp->ivlen);
                if (sp->cm == IMB_CIPHER_ZUC_EEA3 && sp->kl == 32 && sp->ivlen == 25) {
                        /* 25-byte ZUC-256 IV: bytes 17..24 carry 6-bit values */
                        for (int i = 17; i < 25; i++)
                                j->iv[i] &= 0x3f;
                }
        }
        if (sp->ctrcls && j->iv && sp->ivlen == 16) {
                /* counter classes for the CTR modes with a full 16-byte counter block: the 32-bit block counter
                 * wraps inside the message (1), a carry runs out of the low byte / 16 bits (2), everything above
                 * the counter is all ones as well (3) */
                uint32_t blocks = (sp->len + 15) / 16;
                if (sp->ctrcls == 1) {
                        uint32_t c = 0xffffffffu - hx_below(&r, blocks ? blocks : 1);
                        j->iv[12] = (uint8_t) (c >> 24);
                        j->iv[13] = (uint8_t) (c >> 16);
                        j->iv[14] = (uint8_t) (c >> 8);
                        j->iv[15] = (uint8_t) c;
                } else if (sp->ctrcls == 2) {
                        j->iv[13] = 0xff;
                        j->iv[14] = 0xff;
                        j->iv[15] = (uint8_t) (0xff - hx_below(&r, 4));
                } else {
                        memset(j->iv + 4, 0xff, 12);
                        j->iv[15] = (uint8_t) (0xff - hx_below(&r, 3));
                }
        }
        if (sp->aadlen) {
                j->aad = ga_alloc(sp->aadlen, 1, pl, "aad", id);
                hx_fill(&r, j->aad, sp->aadlen);
                if (dpat == 0 || dpat == 3) /* structured data: all-ones AAD (with an all-ones or a random message) */
                        memset(j->aad, 0xff, sp->aadlen);
        }
        if (dpat == 4 && j->iv && sp->ivlen && sp->ivlen != 16 && (sp->ha == IMB_AUTH_AES_GMAC || sp->cm == IMB_CIPHER_GCM))
                memset(j->iv, 0xff, sp->ivlen); /* GCM: all-ones IV (J0 = IV || 1, or the GHASH of the IV for other lengths) */
        if (sp->ha != IMB_AUTH_NULL) {
                j->tag = ga_alloc(sp->taglen ? sp->taglen : 1, 1, pl, "tag", id);
                memset(j->tag, 0xEE, sp->taglen ? sp->taglen : 1);
                memset(j->tag_pre, 0xEE, sizeof(j->tag_pre));
        }
        hx_fill(&r, j->rawkey, sizeof(j->rawkey));
        hx_fill(&r, j->rawakey, sizeof(j->rawakey));
        if (hx_key_salt) {
                /* key-dependence differential (drv_keydiff): other keys, everything else unchanged */
                hx_rng ks;
                hx_seed(&ks, hx_key_salt ^ sp->seed);
                hx_fill(&ks, j->rawkey, sizeof(j->rawkey));
                hx_fill(&ks, j->rawakey, sizeof(j->rawakey));
        }
        if (sp->ha == IMB_AUTH_POLY1305 && kpat <= 2) {
                /* Poly1305 key classes: r = 1 (the accumulator is the plain sum of the blocks) for kpat 0 and 2,
                 * r = the largest clamped value for kpat 1; s stays random */
                memset(j->rawakey, kpat == 1 ? 0xff : 0x00, 16);
                if (kpat != 1)
                        j->rawakey[0] = 1;
        }

        /* --- descriptor --- */
        t->cipher_mode = sp->cm;
        t->cipher_direction = sp->dir;
        t->hash_alg = sp->ha;
        t->chain_order = sp->order;
        t->key_len_in_bytes = sp->kl;
        t->src = j->src;
        t->dst = j->dst;
        t->iv = j->iv;
        t->iv_len_in_bytes = sp->ivlen;
        t->cipher_start_src_offset_in_bytes = sp->coff;
        t->msg_len_to_cipher_in_bytes = sp->len;
        t->hash_start_src_offset_in_bytes = sp->hoff;
        t->msg_len_to_hash_in_bytes = sp->hlen;
        t->auth_tag_output = j->tag;
        t->auth_tag_output_len_in_bytes = sp->taglen;
        if (sp->cm == IMB_CIPHER_CUSTOM)
                t->cipher_func = (sp->cfail & 1) ? custom_fail : custom_cipher_ok;
        if (sp->ha == IMB_AUTH_CUSTOM)
                t->hash_func = (sp->cfail & 2) ? custom_fail : custom_hash_ok;
        t->user_data = (void *) (uintptr_t) (0x1000000u + (unsigned) id);
        t->user_data2 = (void *) (uintptr_t) (sp->seed | 1);
        if (c->bitlen && sp->cm != IMB_CIPHER_NULL) {
                t->msg_len_to_cipher_in_bits = (uint64_t) sp->len * 8 - sp->bitadj;
                if (sp->cm != IMB_CIPHER_CNTR_BITLEN)
                        t->cipher_start_src_offset_in_bits = (uint64_t) sp->coff * 8;
        }
        if (h->bitlen && sp->hlen)
                t->msg_len_to_hash_in_bits = (uint64_t) sp->hlen * 8 - (sp->bitadj % 8);

        /* --- cipher keys --- */
        switch (c->kt) {
        case KT_AES:
        case KT_AES_ENC: {
                void *ek = kalloc(j, 15 * 16, 16, "enc_keys");
                void *dk = kalloc(j, 15 * 16, 16, "dec_keys");
                if (sp->kl == 16)
                        IMB_AES_KEYEXP_128(mgr, j->rawkey, ek, dk);
                else if (sp->kl == 24)
                        IMB_AES_KEYEXP_192(mgr, j->rawkey, ek, dk);
                else
                        IMB_AES_KEYEXP_256(mgr, j->rawkey, ek, dk);
                t->enc_keys = ek;
                t->dec_keys = c->kt == KT_AES ? dk : ek;
                break;
        }
        case KT_GCM: {
                struct gcm_key_data *gk = kalloc(j, sizeof(struct gcm_key_data), 64, "gcm_key");
                IMB_MGR *gm = hx_exec_mgr ? hx_exec_mgr : mgr;
                if (sp->kl == 16)
                        IMB_AES128_GCM_PRE(gm, j->rawkey, gk);
                else if (sp->kl == 24)
                        IMB_AES192_GCM_PRE(gm, j->rawkey, gk);
                else
                        IMB_AES256_GCM_PRE(gm, j->rawkey, gk);
                t->enc_keys = t->dec_keys = gk;
                break;
        }
        case KT_SM4GCM: {
                struct gcm_key_data *gk = kalloc(j, sizeof(struct gcm_key_data), 64, "sm4gcm_key");
                imb_sm4_gcm_pre(hx_exec_mgr ? hx_exec_mgr : mgr, j->rawkey, gk);
                t->enc_keys = t->dec_keys = gk;
                break;
        }
        case KT_DES: {
                uint64_t *ks = kalloc(j, 16 * 8, 16, "des_ks");
                IMB_DES_KEYSCHED(mgr, ks, j->rawkey);
                t->enc_keys = t->dec_keys = ks;
                break;
        }
        case KT_DES3: {
                for (int i = 0; i < 3; i++) {
                        uint64_t *ks = kalloc(j, 16 * 8, 16, "des3_ks");
                        IMB_DES_KEYSCHED(mgr, ks, j->rawkey + 8 * i);
                        j->ks_ptr[i] = ks;
                }
                const void **kp = kalloc(j, 3 * sizeof(void *), 8, "des3_ptrs");
                memcpy(kp, j->ks_ptr, sizeof(j->ks_ptr));
                t->enc_keys = t->dec_keys = kp;
                break;
        }
        case KT_RAW: {
                uint8_t *k = kalloc(j, sp->kl, 16, "raw_key");
                memcpy(k, j->rawkey, sp->kl);
                t->enc_keys = t->dec_keys = k;
                break;
        }
        case KT_SNOW3G: {
                size_t sz = IMB_SNOW3G_KEY_SCHED_SIZE(mgr);
                void *ks = kalloc(j, sz, 16, "snow3g_ks");
                IMB_SNOW3G_INIT_KEY_SCHED(mgr, j->rawkey, ks);
                t->enc_keys = t->dec_keys = ks;
                break;
        }
        case KT_KASUMI: {
                size_t sz = IMB_KASUMI_KEY_SCHED_SIZE(mgr);
                void *ks = kalloc(j, sz, 16, "kasumi_ks");
                IMB_KASUMI_INIT_F8_KEY_SCHED(mgr, j->rawkey, ks);
                t->enc_keys = t->dec_keys = ks;
                break;
        }
        case KT_SM4: {
                uint32_t *ek = kalloc(j, 32 * 4, 16, "sm4_enc");
                uint32_t *dk = kalloc(j, 32 * 4, 16, "sm4_dec");
                IMB_SM4_KEYEXP(mgr, j->rawkey, ek, dk);
                t->enc_keys = ek;
                t->dec_keys = sp->cm == IMB_CIPHER_SM4_CNTR ? ek : dk;
                break;
        }
        default:
                break;
        }
        if (sp->cm == IMB_CIPHER_CBCS_1_9) {
                j->next_iv = ga_alloc(16, 1, pl, "next_iv", id);
                memset(j->next_iv, 0xEE, 16);
                t->cipher_fields.CBCS.next_iv = j->next_iv;
        }

        /* --- hash keys --- */
        switch (h->ht) {
        case HT_HMAC: {
                const uint32_t dsz = (sp->ha == IMB_AUTH_HMAC_SHA_384 ||
                                      sp->ha == IMB_AUTH_HMAC_SHA_512)
                                             ? 64
                                     : sp->ha == IMB_AUTH_MD5        ? 16
                                     : sp->ha == IMB_AUTH_HMAC_SHA_1 ? 20
                                                                     : 32;
                uint8_t *ip = kalloc(j, dsz, 16, "ipad");
                uint8_t *op = kalloc(j, dsz, 16, "opad");
                hx_rng r3;
                hx_seed(&r3, sp->seed ^ 0x77);
                /* key length class: short, block, longer than block */
                static const uint32_t kls[] = { 1, 16, 20, 32, 63, 64, 65, 127, 128, 129, 150 };
                uint32_t kl = kls[hx_below(&r3, 11)];
                if (sp->ha == IMB_AUTH_MD5 && kl > 64)
                        kl = 64;
                j->rawakey_len = kl;
                imb_hmac_ipad_opad(mgr, sp->ha, j->rawakey, kl, ip, op);
                t->u.HMAC._hashed_auth_key_xor_ipad = ip;
                t->u.HMAC._hashed_auth_key_xor_opad = op;
                break;
        }
        case HT_XCBC: {
                uint32_t *k1 = kalloc(j, 11 * 16, 16, "xcbc_k1");
                uint8_t *k2 = kalloc(j, 16, 16, "xcbc_k2");
                uint8_t *k3 = kalloc(j, 16, 16, "xcbc_k3");
                IMB_AES_XCBC_KEYEXP(mgr, j->rawakey, k1, k2, k3);
                t->u.XCBC._k1_expanded = k1;
                t->u.XCBC._k2 = k2;
                t->u.XCBC._k3 = k3;
                j->rawakey_len = 16;
                break;
        }
        case HT_CMAC128:
        case HT_CMAC256: {
                uint32_t *ek = kalloc(j, 15 * 16, 16, "cmac_key");
                uint32_t *dust = kalloc(j, 15 * 16, 16, "cmac_dust");
                uint8_t *s1 = kalloc(j, 16, 16, "cmac_sk1");
                uint8_t *s2 = kalloc(j, 16, 16, "cmac_sk2");
                if (h->ht == HT_CMAC128) {
                        IMB_AES_KEYEXP_128(mgr, j->rawakey, ek, dust);
                        IMB_AES_CMAC_SUBKEY_GEN_128(mgr, ek, s1, s2);
                        j->rawakey_len = 16;
                } else {
                        IMB_AES_KEYEXP_256(mgr, j->rawakey, ek, dust);
                        IMB_AES_CMAC_SUBKEY_GEN_256(mgr, ek, s1, s2);
                        j->rawakey_len = 32;
                }
                t->u.CMAC._key_expanded = ek;
                t->u.CMAC._skey1 = s1;
                t->u.CMAC._skey2 = s2;
                break;
        }
        case HT_GMAC: {
                struct gcm_key_data *gk = kalloc(j, sizeof(struct gcm_key_data), 64, "gmac_key");
                IMB_MGR *gm = hx_exec_mgr ? hx_exec_mgr : mgr;
                if (h->kl == 16)
                        IMB_AES128_GCM_PRE(gm, j->rawakey, gk);
                else if (h->kl == 24)
                        IMB_AES192_GCM_PRE(gm, j->rawakey, gk);
                else
                        IMB_AES256_GCM_PRE(gm, j->rawakey, gk);
                uint8_t *aiv = kalloc(j, 12, 1, "gmac_iv");
                hx_fill(&r, aiv, 12);
                t->u.GMAC._key = gk;
                t->u.GMAC._iv = aiv;
                t->u.GMAC.iv_len_in_bytes = 12;
                j->rawakey_len = h->kl;
                break;
        }
        case HT_GHASH: {
                struct gcm_key_data *gk = kalloc(j, sizeof(struct gcm_key_data), 64, "ghash_key");
                IMB_GHASH_PRE(hx_exec_mgr ? hx_exec_mgr : mgr, j->rawakey, gk);
                uint8_t *it = kalloc(j, 16, 1, "ghash_init");
                hx_fill(&r, it, 16);
                t->u.GHASH._key = gk;
                t->u.GHASH._init_tag = it;
                j->rawakey_len = 16;
                break;
        }
        case HT_POLY: {
                uint8_t *k = kalloc(j, 32, 16, "poly_key");
                memcpy(k, j->rawakey, 32);
                t->u.POLY1305._key = k;
                j->rawakey_len = 32;
                break;
        }
        case HT_ZUC:
        case HT_ZUC256: {
                uint32_t kl = h->ht == HT_ZUC ? 16 : 32, il = h->ht == HT_ZUC ? 16 : 25;
                uint8_t *k = kalloc(j, kl, 16, "zuc_akey");
                uint8_t *aiv = kalloc(j, il, 1, "zuc_aiv");
                memcpy(k, j->rawakey, kl);
                hx_fill(&r, aiv, il);
                if (il == 25)
                        for (int i = 17; i < 25; i++)
                                aiv[i] &= 0x3f;
                t->u.ZUC_EIA3._key = k;
                t->u.ZUC_EIA3._iv = aiv;
                t->u.ZUC_EIA3._iv23 = NULL;
                j->rawakey_len = kl;
                break;
        }
        case HT_SNOW3G: {
                size_t sz = IMB_SNOW3G_KEY_SCHED_SIZE(mgr);
                void *ks = kalloc(j, sz, 16, "snow3g_aks");
                IMB_SNOW3G_INIT_KEY_SCHED(mgr, j->rawakey, ks);
                uint8_t *aiv = kalloc(j, 16, 1, "snow3g_aiv");
                hx_fill(&r, aiv, 16);
                t->u.SNOW3G_UIA2._key = ks;
                t->u.SNOW3G_UIA2._iv = aiv;
                j->rawakey_len = 16;
                break;
        }
        case HT_KASUMI: {
                size_t sz = IMB_KASUMI_KEY_SCHED_SIZE(mgr);
                void *ks = kalloc(j, sz, 16, "kasumi_aks");
                IMB_KASUMI_INIT_F9_KEY_SCHED(mgr, j->rawakey, ks);
                t->u.KASUMI_UIA1._key = ks;
                j->rawakey_len = 16;
                break;
        }
        case HT_AEAD:
                switch (sp->ha) {
                case IMB_AUTH_AES_GMAC:
                case IMB_AUTH_SM4_GCM:
                        t->u.GCM.aad = j->aad;
                        t->u.GCM.aad_len_in_bytes = sp->aadlen;
                        break;
                case IMB_AUTH_AES_CCM:
                        t->u.CCM.aad = j->aad;
                        t->u.CCM.aad_len_in_bytes = sp->aadlen;
                        break;
                case IMB_AUTH_CHACHA20_POLY1305:
                        t->u.CHACHA20_POLY1305.aad = j->aad;
                        t->u.CHACHA20_POLY1305.aad_len_in_bytes = sp->aadlen;
                        break;
                case IMB_AUTH_SNOW_V_AEAD:
                        t->u.SNOW_V_AEAD.aad = j->aad;
                        t->u.SNOW_V_AEAD.aad_len_in_bytes = sp->aadlen;
                        break;
                case IMB_AUTH_DOCSIS_CRC32:
                case IMB_AUTH_PON_CRC_BIP: /* HEC and CRC are updated in the source frame */
                        j->src_written_ok = 1;
                        break;
                }
                break;
        default:
                break;
        }
        j->ga_last = ga_count();
        j->ngobj = ga_tl_n < 32 ? ga_tl_n : 32;
        memcpy(j->gobj, ga_tl_idx, sizeof(int) * (size_t) j->ngobj);
        return 0;
}

void
hx_job_free(hx_job *j)
{
        free(j->src_snapshot);
        free(j->dst_pre);
        j->src_snapshot = j->dst_pre = NULL;
}

void
hx_job_to_slot(const hx_job *j, IMB_JOB *slot)
{
        const IMB_JOB *t = &j->tmpl;
        slot->enc_keys = t->enc_keys;
        slot->dec_keys = t->dec_keys;
        slot->key_len_in_bytes = t->key_len_in_bytes;
        slot->src = t->src;
        slot->dst = t->dst;
        slot->cipher_start_src_offset_in_bytes = t->cipher_start_src_offset_in_bytes;
        slot->msg_len_to_cipher_in_bytes = t->msg_len_to_cipher_in_bytes;
        slot->hash_start_src_offset_in_bytes = t->hash_start_src_offset_in_bytes;
        slot->msg_len_to_hash_in_bytes = t->msg_len_to_hash_in_bytes;
        slot->iv = t->iv;
        slot->iv_len_in_bytes = t->iv_len_in_bytes;
        slot->auth_tag_output = t->auth_tag_output;
        slot->auth_tag_output_len_in_bytes = t->auth_tag_output_len_in_bytes;
        slot->u = t->u;
        slot->cipher_mode = t->cipher_mode;
        slot->cipher_direction = t->cipher_direction;
        slot->hash_alg = t->hash_alg;
        slot->chain_order = t->chain_order;
        slot->user_data = t->user_data;
        slot->user_data2 = t->user_data2;
        slot->cipher_func = t->cipher_func;
        slot->hash_func = t->hash_func;
        slot->sgl_state = t->sgl_state;
        slot->cipher_fields = t->cipher_fields;
}

static size_t
out_bytes(const hx_job *j)
{
        return j->dst_size;
}

/* DOCSIS+CRC32 computes a CRC only for a hash range of at least one minimal Ethernet PDU (14 bytes);
 * below that no CRC is requested and what the tag buffer holds afterwards is not an output (the C
 * managers leave it alone, the AVX512 assembly stores its running CRC state) */
int
hx_tag_defined(const hx_spec *sp)
{
        return hx_tag_cmp_len(sp) != 0;
}

/* number of leading tag bytes that are an output of the job: everything, except that DOCSIS+CRC32 below 14
 * hashed bytes requests no CRC, and PON with PLI <= 4 computes no Ethernet CRC (the BIP half, bytes 0..3, is
 * defined; bytes 4..7 receive whatever the CRC register held) */
uint32_t
hx_tag_cmp_len(const hx_spec *sp)
{
        if (sp->ha == IMB_AUTH_DOCSIS_CRC32 && sp->hlen < 14)
                return 0;
        if (sp->ha == IMB_AUTH_PON_CRC_BIP && sp->cm == IMB_CIPHER_PON_AES_CNTR && sp->pli <= 4)
                return 4;
        return sp->taglen;
}

int
hx_job_cmp_out(const hx_job *a, const hx_job *b)
{
        int d = 0;
        if (a->dst && b->dst && out_bytes(a)) {
                size_t n = out_bytes(a);
                if (a->sp.bitadj && a->sp.cm != IMB_CIPHER_NULL && n) {
                        /* bit-length modes: compare whole bytes, then the valid bits of the last */
                        if (memcmp(a->dst, b->dst, n - 1) != 0)
                                d |= 1;
                        uint8_t m = (uint8_t) (0xff << a->sp.bitadj);
                        if ((a->dst[n - 1] & m) != (b->dst[n - 1] & m))
                                d |= 1;
                } else if (memcmp(a->dst, b->dst, n) != 0)
                        d |= 1;
        }
        if (a->tag && b->tag && hx_tag_cmp_len(&a->sp) && memcmp(a->tag, b->tag, hx_tag_cmp_len(&a->sp)) != 0)
                d |= 2;
        if (a->next_iv && b->next_iv && memcmp(a->next_iv, b->next_iv, 16) != 0)
                d |= 4;
        if (a->src_written_ok && memcmp(a->src, b->src, a->src_size) != 0)
                d |= 4;
        return d;
}

int
hx_job_check_bounds(const hx_job *j)
{
        int d = 0;
        if (!j->src_written_ok) {
                if (j->sp.inplace && j->dst) {
                        /* in place: everything outside [coff, coff+len) must be intact */
                        size_t a = j->sp.coff, b = a + j->dst_size;
                        if (memcmp(j->src, j->src_snapshot, a) != 0)
                                d |= 1;
                        if (b < j->src_size &&
                            memcmp(j->src + b, j->src_snapshot + b, j->src_size - b) != 0)
                                d |= 1;
                } else if (memcmp(j->src, j->src_snapshot, j->src_size) != 0)
                        d |= 1;
        }
        return d;
}

int
hx_desc_changed(const IMB_JOB *ret, const IMB_JOB *s, int *info)
{
        int m = 0, i = 0;
#define F(bit, f)                                                                                  \
        if (memcmp(&ret->f, &s->f, sizeof(ret->f)) != 0)                                           \
        m |= (1 << bit)
        F(0, enc_keys);
        F(1, dec_keys);
        F(2, key_len_in_bytes);
        F(3, src);
        F(4, dst);
        F(5, cipher_start_src_offset_in_bytes);
        F(6, hash_start_src_offset_in_bytes);
        F(7, iv);
        F(8, auth_tag_output);
        F(9, cipher_mode);
        F(10, cipher_direction);
        F(11, hash_alg);
        F(12, chain_order);
        F(13, user_data);
        F(14, user_data2);
        F(15, suite_id);
        F(16, session_id);
#undef F
        /* algorithm specific key pointers (union): compare the three pointer-sized words */
        if (s->hash_alg == IMB_AUTH_SNOW_V_AEAD) {
                /* third word of this union member is a library-owned 'reserved' field */
                if (ret->u.SNOW_V_AEAD.aad != s->u.SNOW_V_AEAD.aad ||
                    ret->u.SNOW_V_AEAD.aad_len_in_bytes != s->u.SNOW_V_AEAD.aad_len_in_bytes)
                        m |= (1 << 17);
        } else if (memcmp(&ret->u, &s->u, sizeof(ret->u)) != 0) {
                /* aad_len / iv_len live in the same union; any change in a pointer word counts */
                m |= (1 << 17);
        }
        if (ret->msg_len_to_cipher_in_bytes != s->msg_len_to_cipher_in_bytes)
                i |= 1;
        if (ret->msg_len_to_hash_in_bytes != s->msg_len_to_hash_in_bytes)
                i |= 2;
        if (ret->iv_len_in_bytes != s->iv_len_in_bytes)
                i |= 4;
        if (ret->auth_tag_output_len_in_bytes != s->auth_tag_output_len_in_bytes)
                i |= 8;
        if (ret->sgl_state != s->sgl_state)
                i |= 16;
        if (memcmp(&ret->cipher_fields, &s->cipher_fields, sizeof(ret->cipher_fields)) != 0)
                i |= 32;
        if (info)
                *info = i;
        return m;
}

/* ------------------------------------------------------------------ run-alone oracle */
static IMB_MGR *oracle_mgr[16];
static int oracle_uses[16];

int
hx_run_alone(const hx_variant *v, const hx_spec *sp0, hx_job *out)
{
        int vi = (int) (v - hx_variants);
        if (!oracle_mgr[vi] || ++oracle_uses[vi] > 64) {
                if (oracle_mgr[vi])
                        free_mb_mgr(oracle_mgr[vi]);
                oracle_mgr[vi] = hx_mgr_new(v);
                oracle_uses[vi] = 0;
        }
        IMB_MGR *m = oracle_mgr[vi];
        if (!m)
                return -1;
        hx_spec sp = *sp0;
        sp.placement = GA_SLACK;
        if (hx_job_build(m, &sp, -2, out) != 0)
                return -1;
        IMB_JOB *slot = IMB_GET_NEXT_JOB(m);
        hx_job_to_slot(out, slot);
        IMB_JOB *r = IMB_SUBMIT_JOB(m);
        if (!r)
                r = IMB_FLUSH_JOB(m);
        int st = r ? (int) r->status : -1;
        while (IMB_FLUSH_JOB(m) != NULL)
                ;
        return st;
}
