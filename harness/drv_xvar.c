/* C08 (equality half): the same job on every reachable variant and flag combination must give
 * bit-identical output, tag, status; ciphertext produced by one variant must be recovered by every
 * other. One "X" event per spec. */
#define _GNU_SOURCE
#include "hx.h"
#include <stdlib.h>
#include <string.h>
#include <unistd.h>

#define NV 10
static IMB_MGR *mg[NV];

static int
run_on(int vi, const hx_spec *sp, hx_job *j, const uint8_t *src_override, size_t so_off, size_t so_len)
{
        if (hx_job_build(mg[vi], sp, 1, j) != 0)
                return -100;
        if (src_override) {
                memcpy(j->src + so_off, src_override, so_len);
                memcpy(j->src_snapshot + so_off, src_override, so_len);
        }
        int sig = sigsetjmp(hx_fault_jmp, 1);
        if (sig != 0) {
                alarm(0);
                free_mb_mgr(mg[vi]);
                mg[vi] = hx_mgr_new(&hx_variants[vi]);
                return -sig;
        }
        alarm(20);
        IMB_JOB *slot = (IMB_JOB *) hx_call((void *) mg[vi]->get_next_job, 1, (uint64_t) mg[vi]);
        hx_job_to_slot(j, slot);
        IMB_JOB *r = (IMB_JOB *) hx_call((void *) mg[vi]->submit_job, 1, (uint64_t) mg[vi]);
        if (!r)
                r = (IMB_JOB *) hx_call((void *) mg[vi]->flush_job, 1, (uint64_t) mg[vi]);
        alarm(0);
        int st = r ? (int) r->status : -1;
        int err = mg[vi]->imb_errno;
        while (IMB_FLUSH_JOB(mg[vi]) != NULL)
                ;
        return st == IMB_STATUS_INVALID_ARGS ? -1000 - err : st;
}

int
drv_xvar(int argc, char **argv)
{
        const char *out = NULL, *kinds = NULL;
        int n = 30, dense = 0;
        uint64_t seed = 1;
        for (int i = 0; i < argc; i++) {
                if (!strcmp(argv[i], "--out"))
                        out = argv[++i];
                else if (!strcmp(argv[i], "--n"))
                        n = atoi(argv[++i]);
                else if (!strcmp(argv[i], "--dense"))
                        dense = atoi(argv[++i]);
                else if (!strcmp(argv[i], "--kinds"))
                        kinds = argv[++i];
                else if (!strcmp(argv[i], "--seed"))
                        seed = strtoull(argv[++i], NULL, 0);
        }
        hx_trace = out ? fopen(out, "w") : stdout;
        static char tbuf[1 << 20];
        setvbuf(hx_trace, tbuf, _IOFBF, sizeof(tbuf));
        int nv = 0;
        for (int i = 0; i < NV; i++) {
                mg[i] = hx_mgr_new(&hx_variants[i]);
                if (mg[i])
                        nv++;
        }
        tr_begin("XBegin");
        tr_int("variants", nv);
        tr_end();
        const char *klist[256];
        int nk = 0;
        char kb[4096];
        if (kinds) {
                snprintf(kb, sizeof(kb), "%s", kinds);
                for (char *p = strtok(kb, ","); p && nk < 256; p = strtok(NULL, ","))
                        klist[nk++] = p;
        } else
                for (int i = 0; i < hx_nkinds; i++)
                        klist[nk++] = hx_kinds[i];
        hx_data_patterns = 1;
        hx_rng g;
        hx_seed(&g, seed);
        long nspec = 0, nrun = 0;
        for (int k = 0; k < nk; k++)
                for (int it = 0; it < n + dense; it++) {
                        hx_spec sp;
                        hx_force_len = it < dense ? it : -1;
                        if (!hx_spec_from_kind(klist[k], &g, &sp))
                                return 2;
                        sp.placement = GA_END;
                        hx_job ref, cur;
                        int st0 = -99, ndiff = 0, nst = 0, first = -1;
                        int diffv[NV], stv[NV];
                        for (int vi = 0; vi < NV; vi++) {
                                diffv[vi] = 0;
                                stv[vi] = -99;
                                if (!mg[vi])
                                        continue;
                                if (first < 0) {
                                        st0 = run_on(vi, &sp, &ref, NULL, 0, 0);
                                        stv[vi] = st0;
                                        first = vi;
                                        nrun++;
                                        continue;
                                }
                                int st = run_on(vi, &sp, &cur, NULL, 0, 0);
                                nrun++;
                                stv[vi] = st;
                                if (st != st0)
                                        nst++;
                                else if (st == IMB_STATUS_COMPLETED) {
                                        diffv[vi] = hx_job_cmp_out(&ref, &cur);
                                        if (diffv[vi])
                                                ndiff++;
                                }
                                hx_job_free(&cur);
                        }
                        /* cross-variant recovery: decrypt the reference ciphertext on every variant */
                        int nrec = 0, nrecbad = 0;
                        if (st0 == IMB_STATUS_COMPLETED && sp.cm != IMB_CIPHER_NULL && sp.dir == IMB_DIR_ENCRYPT &&
                            sp.ha != IMB_AUTH_DOCSIS_CRC32 && sp.ha != IMB_AUTH_PON_CRC_BIP && sp.cm != IMB_CIPHER_CBCS_1_9 && !sp.bitadj) {
                                hx_spec dsp = sp;
                                dsp.dir = IMB_DIR_DECRYPT;
                                dsp.order = (sp.cm == IMB_CIPHER_CCM) ? IMB_ORDER_CIPHER_HASH : IMB_ORDER_HASH_CIPHER;
                                /* keep the hash over the same bytes: for AEAD the tag must match */
                                for (int vi = 0; vi < NV; vi++) {
                                        if (!mg[vi])
                                                continue;
                                        int st = run_on(vi, &dsp, &cur, ref.dst, sp.coff, ref.dst_size);
                                        nrun++;
                                        nrec++;
                                        if (st != IMB_STATUS_COMPLETED)
                                                nrecbad++;
                                        else {
                                                /* plaintext recovered = the original source of the encrypt job */
                                                if (ref.dst_size &&
                                                    memcmp(cur.dst, ref.src_snapshot + sp.coff, ref.dst_size) != 0)
                                                        nrecbad++;
                                                int aead = sp.ha == IMB_AUTH_AES_GMAC || sp.ha == IMB_AUTH_AES_CCM ||
                                                           sp.ha == IMB_AUTH_CHACHA20_POLY1305 ||
                                                           sp.ha == IMB_AUTH_SNOW_V_AEAD || sp.ha == IMB_AUTH_SM4_GCM;
                                                if (aead && sp.taglen && memcmp(cur.tag, ref.tag, sp.taglen) != 0)
                                                        nrecbad++;
                                        }
                                        hx_job_free(&cur);
                                }
                        }
                        nspec++;
                        tr_begin("X");
                        tr_str("kind", klist[k]);
                        tr_int("len", sp.len);
                        tr_int("hlen", sp.hlen);
                        tr_int("coff", sp.coff);
                        tr_int("taglen", sp.taglen);
                        tr_int("ivlen", sp.ivlen);
                        tr_int("aadlen", sp.aadlen);
                        tr_int("inplace", sp.inplace);
                        tr_int("seedlo", (long long) (sp.seed & 0xffffff));
                        tr_int("seedmid", (long long) ((sp.seed >> 24) & 0xffffff));
                        tr_int("seedhi", (long long) (sp.seed >> 48));
                        tr_ints("st", stv, NV);
                        tr_ints("diff", diffv, NV);
                        tr_int("ndiff", ndiff);
                        tr_int("nstdiff", nst);
                        tr_int("nrec", nrec);
                        tr_int("nrecbad", nrecbad);
                        tr_end();
                        if (first >= 0)
                                hx_job_free(&ref);
                        ga_reset();
                }
        tr_begin("XEnd");
        tr_int("n", nspec);
        tr_end();
        fclose(hx_trace);
        fprintf(stderr, "{\"specs\":%ld,\"runs\":%ld,\"variants\":%d}\n", nspec, nrun, nv);
        return 0;
}
