; Call trampoline used by the conformance harness for every library call.
;
;   void hx_tramp(struct hx_tr *t);
;
; struct hx_tr layout (keep in sync with hx.h):
;   0    fn
;   8    a[6]                 (48 bytes)
;   56   ret
;   64   flags_in             bit0: scrub+dump registers/stack (C13), bit1: zmm available
;   72   viol                 out: bit0 rbx, bit1 rbp, bit2 r12, bit3 r13, bit4 r14, bit5 r15,
;                                  bit6 rsp, bit7 DF set, bit8 MXCSR changed
;   80   exp_rsp
;   88   mxcsr_before (4) , 92 mxcsr_after (4)
;   96   gpr[16]              dump after return (rax,rcx,rdx,rbx,rsp,rbp,rsi,rdi,r8..r15)
;   224  vec[32*64]           zmm0..31 after return
;   2272 stack_copy ptr       (buffer of STACK_SCAN bytes, may be NULL)
;   2280 bad[8]               observed values of rbx,rbp,r12..r15,rsp,rflags after return

%define STACK_SCAN 16384

%define T_FN      0
%define T_A       8
%define T_RET     56
%define T_FLAGS   64
%define T_VIOL    72
%define T_EXPRSP  80
%define T_MXB     88
%define T_MXA     92
%define T_GPR     96
%define T_VEC     224
%define T_STK     2272
%define T_BAD     2280

%define S_RBX 0x1111111111111101
%define S_RBP 0x2222222222222202
%define S_R12 0x3333333333333303
%define S_R13 0x4444444444444404
%define S_R14 0x5555555555555505
%define S_R15 0x6666666666666606

default rel
section .bss
global hx_tramp_cur
hx_tramp_cur: resq 1

section .text
global hx_tramp
hx_tramp:
        push    rbx
        push    rbp
        push    r12
        push    r13
        push    r14
        push    r15
        sub     rsp, 8
        mov     [hx_tramp_cur], rdi
        mov     r11, rdi

        test    qword [r11 + T_FLAGS], 1
        jz      .no_scrub
        ; scrub the dead stack below rsp so that anything found there later was left by the callee
        lea     rdi, [rsp - STACK_SCAN]
        mov     rcx, STACK_SCAN / 8
        xor     eax, eax
        cld
        rep stosq
        ; scrub vector registers
        vzeroall
        test    qword [r11 + T_FLAGS], 2
        jz      .no_scrub
%assign i 16
%rep 16
        vpxorq  zmm %+ i, zmm %+ i, zmm %+ i
%assign i (i+1)
%endrep
.no_scrub:
        stmxcsr [r11 + T_MXB]
        mov     [r11 + T_EXPRSP], rsp
        mov     rax, [r11 + T_FN]
        mov     rdi, [r11 + T_A + 0]
        mov     rsi, [r11 + T_A + 8]
        mov     rdx, [r11 + T_A + 16]
        mov     rcx, [r11 + T_A + 24]
        mov     r8,  [r11 + T_A + 32]
        mov     r9,  [r11 + T_A + 40]
        mov     rbx, S_RBX
        mov     rbp, S_RBP
        mov     r12, S_R12
        mov     r13, S_R13
        mov     r14, S_R14
        mov     r15, S_R15
        xor     r10d, r10d
        xor     r11d, r11d
        call    rax

        mov     r11, [hx_tramp_cur]
        mov     [r11 + T_RET], rax
        ; GPR dump (caller-saved ones are what the callee left behind)
        mov     [r11 + T_GPR + 0*8], rax
        mov     [r11 + T_GPR + 1*8], rcx
        mov     [r11 + T_GPR + 2*8], rdx
        mov     [r11 + T_GPR + 3*8], rbx
        mov     [r11 + T_GPR + 4*8], rsp
        mov     [r11 + T_GPR + 5*8], rbp
        mov     [r11 + T_GPR + 6*8], rsi
        mov     [r11 + T_GPR + 7*8], rdi
        mov     [r11 + T_GPR + 8*8], r8
        mov     [r11 + T_GPR + 9*8], r9
        mov     [r11 + T_GPR + 10*8], r10
        mov     qword [r11 + T_GPR + 11*8], 0
        mov     [r11 + T_GPR + 12*8], r12
        mov     [r11 + T_GPR + 13*8], r13
        mov     [r11 + T_GPR + 14*8], r14
        mov     [r11 + T_GPR + 15*8], r15
        ; observed callee-saved values
        mov     [r11 + T_BAD + 0*8], rbx
        mov     [r11 + T_BAD + 1*8], rbp
        mov     [r11 + T_BAD + 2*8], r12
        mov     [r11 + T_BAD + 3*8], r13
        mov     [r11 + T_BAD + 4*8], r14
        mov     [r11 + T_BAD + 5*8], r15
        mov     [r11 + T_BAD + 6*8], rsp
        ; compare
        xor     r10d, r10d
        mov     rax, S_RBX
        cmp     rbx, rax
        je      .ok_rbx
        or      r10, 1
.ok_rbx:
        mov     rax, S_RBP
        cmp     rbp, rax
        je      .ok_rbp
        or      r10, 2
.ok_rbp:
        mov     rax, S_R12
        cmp     r12, rax
        je      .ok_r12
        or      r10, 4
.ok_r12:
        mov     rax, S_R13
        cmp     r13, rax
        je      .ok_r13
        or      r10, 8
.ok_r13:
        mov     rax, S_R14
        cmp     r14, rax
        je      .ok_r14
        or      r10, 16
.ok_r14:
        mov     rax, S_R15
        cmp     r15, rax
        je      .ok_r15
        or      r10, 32
.ok_r15:
        cmp     rsp, [r11 + T_EXPRSP]
        je      .ok_rsp
        or      r10, 64
        mov     rsp, [r11 + T_EXPRSP]
.ok_rsp:
        pushfq
        pop     rax
        mov     [r11 + T_BAD + 7*8], rax
        test    rax, 0x400
        jz      .ok_df
        or      r10, 128
        cld
.ok_df:
        stmxcsr [r11 + T_MXA]
        mov     eax, [r11 + T_MXA]
        cmp     eax, [r11 + T_MXB]
        je      .ok_mx
        or      r10, 256
        ldmxcsr [r11 + T_MXB]
.ok_mx:
        mov     [r11 + T_VIOL], r10

        test    qword [r11 + T_FLAGS], 1
        jz      .no_dump
        ; vector register dump
        test    qword [r11 + T_FLAGS], 2
        jz      .ymm_dump
%assign i 0
%rep 32
        vmovdqu64 [r11 + T_VEC + i*64], zmm %+ i
%assign i (i+1)
%endrep
        jmp     .stack_dump
.ymm_dump:
%assign i 0
%rep 16
        vmovdqu [r11 + T_VEC + i*64], ymm %+ i
%assign i (i+1)
%endrep
.stack_dump:
        mov     rdi, [r11 + T_STK]
        test    rdi, rdi
        jz      .no_dump
        lea     rsi, [rsp - STACK_SCAN]
        mov     rcx, STACK_SCAN / 8
        cld
        rep movsq
.no_dump:
        vzeroupper
        add     rsp, 8
        pop     r15
        pop     r14
        pop     r13
        pop     r12
        pop     rbp
        pop     rbx
        ret

section .note.GNU-stack noalloc noexec nowrite progbits
