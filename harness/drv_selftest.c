/* C20: power-up self-test fault enumeration. For every variant and init function the self-test
 * call-back stream is recorded for the fault-free run, for every single corrupted test, for pairs
 * and for random larger subsets. One "Run" event each; spec/Trace_SelfTest.tla decides. */
#define _GNU_SOURCE
#include "hx.h"
#include <stdlib.h>
#include <string.h>

#define MAXEV 512
static struct {
        char phase[12], type[16], descr[48];
} evs[MAXEV];
static int nev, cur_test;
static uint64_t fault_lo, fault_hi; /* bit i set: corrupt test i */

static int
cb(void *arg, const IMB_SELF_TEST_CALLBACK_DATA *d)
{
        (void) arg;
        int r = 1;
        if (nev < MAXEV) {
                snprintf(evs[nev].phase, sizeof(evs[nev].phase), "%s", d->phase ? d->phase : "");
                snprintf(evs[nev].type, sizeof(evs[nev].type), "%s", d->type ? d->type : "");
                snprintf(evs[nev].descr, sizeof(evs[nev].descr), "%s", d->descr ? d->descr : "");
                nev++;
        }
        if (d->phase && strcmp(d->phase, IMB_SELF_TEST_PHASE_START) == 0)
                cur_test++;
        if (d->phase && strcmp(d->phase, IMB_SELF_TEST_PHASE_CORRUPT) == 0) {
                int i = cur_test - 1;
                int f = i < 64 ? (int) ((fault_lo >> i) & 1) : (int) ((fault_hi >> (i - 64)) & 1);
                if (f)
                        r = 0;
        }
        return r;
}

static long nruns;

/* give every ring slot a past: a mixed-suite history with non-zero offsets, all jobs drained */
static void
dirty(IMB_MGR *m, hx_rng *g)
{
        for (int i = 0; i < 300; i++) {
                hx_spec sp;
                hx_spec_from_kind(hx_kinds[hx_below(g, (uint32_t) hx_nkinds)], g, &sp);
                sp.placement = GA_SLACK;
                hx_job j;
                if (hx_job_build(m, &sp, i, &j) != 0)
                        continue;
                IMB_JOB *slot = IMB_GET_NEXT_JOB(m);
                hx_job_to_slot(&j, slot);
                (void) IMB_SUBMIT_JOB(m);
                hx_job_free(&j);
                if ((i & 63) == 63) {
                        while (IMB_FLUSH_JOB(m) != NULL)
                                ;
                        ga_reset();
                }
        }
        while (IMB_FLUSH_JOB(m) != NULL)
                ;
        ga_reset();
}

static IMB_MGR *used_mgr;
static hx_rng dirty_rng;

/* mode bit 2: re-initialise a manager that has a job history instead of a freshly allocated one */
static void
run(const hx_variant *v, int mode, uint64_t flo, uint64_t fhi)
{
        const int use_auto = mode & 1, reuse = mode & 2;
        IMB_MGR *m = reuse ? used_mgr : alloc_mb_mgr(v->flags);
        if (reuse && !m) {
                m = used_mgr = hx_mgr_new(v);
        }
        if (!m)
                return;
        if (reuse)
                dirty(m, &dirty_rng);
        int preerr = 0;
        if (reuse && (nruns & 1)) {
                /* every second time the last thing the manager saw is a rejected job: it holds a non-zero error code when
                 * it is initialised again (the self-test must run all the same) */
                hx_spec sp;
                hx_job j;
                hx_spec_from_kind("CBC128E", &dirty_rng, &sp);
                sp.placement = GA_SLACK;
                if (hx_job_build(m, &sp, 9999, &j) == 0) {
                        IMB_JOB *slot = IMB_GET_NEXT_JOB(m);
                        hx_job_to_slot(&j, slot);
                        slot->src = NULL;
                        (void) IMB_SUBMIT_JOB(m);
                        preerr = m->imb_errno;
                        hx_job_free(&j);
                        ga_reset();
                }
        }
        imb_self_test_set_cb(m, cb, NULL);
        nev = 0;
        cur_test = 0;
        fault_lo = flo;
        fault_hi = fhi;
        IMB_ARCH arch = IMB_ARCH_NONE;
        int sig = sigsetjmp(hx_fault_jmp, 1);
        int crashed = 0;
        if (sig == 0) {
                hx_in_call = 1;
                if (use_auto)
                        init_mb_mgr_auto(m, &arch);
                else
                        hx_mgr_init(m, v);
                hx_in_call = 0;
        } else
                crashed = sig;
        nruns++;
        tr_begin("Run");
        tr_str("variant", v->name);
        tr_str("init", use_auto ? "auto" : "explicit");
        tr_int("used", reuse ? 1 : 0);
        tr_int("preerr", preerr);
        int faults[128], nf = 0;
        for (int i = 0; i < 128; i++)
                if (i < 64 ? ((flo >> i) & 1) : ((fhi >> (i - 64)) & 1))
                        faults[nf++] = i + 1;
        tr_ints("fault", faults, nf);
        tr_int("crashed", crashed);
        tr_int("errno", crashed ? -1 : imb_get_errno(m));
        tr_int("errfield", crashed ? -1 : m->imb_errno);
        tr_int("st_bit", (m->features & IMB_FEATURE_SELF_TEST) != 0);
        tr_int("pass_bit", (m->features & IMB_FEATURE_SELF_TEST_PASS) != 0);
        tr_int("used_arch", (long long) m->used_arch);
        tr_int("arch_type", (long long) m->used_arch_type);
        tr_int("qsz", crashed ? -1 : (long long) IMB_QUEUE_SIZE(m));
        fprintf(hx_trace, ",\"events\":[");
        for (int i = 0; i < nev; i++)
                fprintf(hx_trace, "%s[\"%s\",\"%s\",\"%s\"]", i ? "," : "", evs[i].phase, evs[i].type,
                        evs[i].descr);
        fputc(']', hx_trace);
        tr_end();
        if (!crashed && !reuse)
                free_mb_mgr(m);
        if (crashed && reuse)
                used_mgr = NULL;
}

int
drv_selftest(int argc, char **argv)
{
        const char *out = NULL, *variants = "sse_t1,sse_t2,sse_t3,avx2_t1,avx2_t2,avx512_t1,avx512_t2";
        int pairs = 60, subsets = 40;
        uint64_t seed = 1;
        for (int i = 0; i < argc; i++) {
                if (!strcmp(argv[i], "--out"))
                        out = argv[++i];
                else if (!strcmp(argv[i], "--variants"))
                        variants = argv[++i];
                else if (!strcmp(argv[i], "--pairs"))
                        pairs = atoi(argv[++i]); /* -1 = all pairs */
                else if (!strcmp(argv[i], "--subsets"))
                        subsets = atoi(argv[++i]);
                else if (!strcmp(argv[i], "--seed"))
                        seed = strtoull(argv[++i], NULL, 0);
        }
        hx_trace = out ? fopen(out, "w") : stdout;
        static char tbuf[1 << 20];
        setvbuf(hx_trace, tbuf, _IOFBF, sizeof(tbuf));
        char vb[256];
        snprintf(vb, sizeof(vb), "%s", variants);
        hx_rng g;
        hx_seed(&g, seed);
        for (char *p = strtok(vb, ","); p; p = strtok(NULL, ",")) {
                const hx_variant *v = hx_variant_by_name(p);
                if (!v)
                        continue;
                for (int use_auto = 0; use_auto < 2; use_auto++) {
                        /* auto picks the best architecture: only meaningful for the flag sets */
                        run(v, use_auto, 0, 0);
                        int ntests = cur_test;
                        if (ntests > 128)
                                ntests = 128;
                        for (int i = 0; i < ntests; i++)
                                run(v, use_auto, i < 64 ? 1ULL << i : 0, i >= 64 ? 1ULL << (i - 64) : 0);
                        if (use_auto)
                                continue; /* pairs/subsets once per variant */
                        if (pairs < 0) {
                                for (int i = 0; i < ntests; i++)
                                        for (int j = i + 1; j < ntests; j++)
                                                run(v, 0, (i < 64 ? 1ULL << i : 0) | (j < 64 ? 1ULL << j : 0),
                                                    (i >= 64 ? 1ULL << (i - 64) : 0) |
                                                            (j >= 64 ? 1ULL << (j - 64) : 0));
                        } else
                                for (int k = 0; k < pairs; k++) {
                                        int i = (int) hx_below(&g, (uint32_t) ntests),
                                            j = (int) hx_below(&g, (uint32_t) ntests);
                                        run(v, 0, (i < 64 ? 1ULL << i : 0) | (j < 64 ? 1ULL << j : 0),
                                            (i >= 64 ? 1ULL << (i - 64) : 0) |
                                                    (j >= 64 ? 1ULL << (j - 64) : 0));
                                }
                        for (int k = 0; k < subsets; k++) {
                                uint64_t lo = hx_rand(&g) & hx_rand(&g), hi = 0;
                                if (ntests < 64)
                                        lo &= (1ULL << ntests) - 1;
                                run(v, 0, lo, hi);
                        }
                        /* the same on a manager with a history (re-initialisation): fault-free, every
                         * single entry, a few subsets */
                        hx_seed(&dirty_rng, seed ^ 0xd1);
                        used_mgr = NULL;
                        run(v, 2, 0, 0);
                        for (int i = 0; i < ntests; i += (subsets > 100 ? 1 : 3))
                                run(v, 2, i < 64 ? 1ULL << i : 0, i >= 64 ? 1ULL << (i - 64) : 0);
                        if (used_mgr)
                                free_mb_mgr(used_mgr);
                        used_mgr = NULL;
                }
        }
        fclose(hx_trace);
        fprintf(stderr, "{\"runs\":%ld}\n", nruns);
        return 0;
}
