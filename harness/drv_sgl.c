/* C10: streaming / SGL interfaces. Every session runs a message through one of
 *   direct  : init / update* / finalize calls (GCM, GMAC, ChaCha20-Poly1305)
 *   jobs    : IMB_SGL_INIT / UPDATE* / COMPLETE jobs (GCM-SGL, ChaCha20-Poly1305-SGL)
 *   all     : one IMB_SGL_ALL job with a segment array
 * with a given partition of the message into segments (each segment is its own guarded object, so
 * an over-read of a short segment faults), logs the public context fields after every call, and
 * compares concatenated output and tag with the one-shot job. */
#define _GNU_SOURCE
#include "hx.h"
#include <stdlib.h>
#include <string.h>
#include <unistd.h>

static IMB_MGR *M;
static const hx_variant *V;
static long nsess, ncalls_sgl;

enum { A_GCM, A_GMAC, A_CHAPOLY };

typedef struct {
        int alg, kl, dir, iface; /* iface: 0 direct, 1 jobs, 2 all */
        uint32_t total, aadlen, ivlen, taglen;
        int nseg;
        uint32_t seg[64];
        uint64_t seed;
} sess_t;

static void
gcm_pre(int kl, const uint8_t *key, struct gcm_key_data *gk)
{
        if (kl == 16)
                IMB_AES128_GCM_PRE(M, key, gk);
        else if (kl == 24)
                IMB_AES192_GCM_PRE(M, key, gk);
        else
                IMB_AES256_GCM_PRE(M, key, gk);
}

static void
log_ctx(const sess_t *s, const char *ev, uint32_t n, const struct gcm_context_data *g,
        const struct chacha20_poly1305_context_data *c)
{
        tr_begin(ev);
        tr_int("n", n);
        if (s->alg == A_CHAPOLY) {
                tr_int("hlen", (long long) c->hash_len);
                tr_int("rct", (long long) c->remain_ct_bytes);
                tr_int("rks", (long long) c->remain_ks_bytes);
                tr_int("blk", (long long) c->last_block_count);
        } else {
                tr_int("hlen", (long long) g->in_length);
                tr_int("rct", (long long) g->partial_block_length);
                tr_int("aadl", (long long) g->aad_length);
        }
        tr_end();
}

static IMB_JOB *
submit1(IMB_JOB *slot_filled)
{
        (void) slot_filled;
        IMB_JOB *r = (IMB_JOB *) hx_call((void *) M->submit_job, 1, (uint64_t) M);
        if (!r)
                r = (IMB_JOB *) hx_call((void *) M->flush_job, 1, (uint64_t) M);
        return r;
}

static void
session(const sess_t *s)
{
        hx_rng r;
        hx_seed(&r, s->seed);
        uint8_t key[32], iv[64], aad[600];
        hx_fill(&r, key, sizeof(key));
        hx_fill(&r, iv, sizeof(iv));
        hx_fill(&r, aad, sizeof(aad));
        const uint32_t T = s->total;
        uint8_t *msg = malloc(T + 1), *ref_out = malloc(T + 1), *sgl_out = malloc(T + 1);
        uint8_t ref_tag[16], sgl_tag[16];
        hx_fill(&r, msg, T + 1);
        memset(ref_tag, 0, 16);
        memset(sgl_tag, 0xEE, 16);
        struct gcm_key_data *gk = ga_alloc(sizeof(*gk), 64, GA_END, "gcm_key", 1);
        struct gcm_context_data *gctx = ga_alloc(sizeof(*gctx), 16, GA_END, "gcm_ctx", 1);
        struct chacha20_poly1305_context_data *cctx = ga_alloc(sizeof(*cctx), 16, GA_END, "chapoly_ctx", 1);
        uint8_t *kraw = ga_alloc(32, 16, GA_END, "raw_key", 1);
        uint8_t *ivb = ga_alloc(s->ivlen, 1, GA_END, "iv", 1);
        uint8_t *aadb = ga_alloc(s->aadlen ? s->aadlen : 1, 1, GA_END, "aad", 1);
        memcpy(kraw, key, 32);
        memcpy(ivb, iv, s->ivlen);
        memcpy(aadb, aad, s->aadlen);
        if (s->alg != A_CHAPOLY)
                gcm_pre(s->kl, key, gk);

        tr_begin("SglBegin");
        tr_str("variant", V->name);
        tr_str("alg", s->alg == A_GCM ? "gcm" : s->alg == A_GMAC ? "gmac" : "chapoly");
        tr_int("kl", s->kl);
        tr_int("dir", s->dir);
        tr_int("iface", s->iface);
        tr_int("total", T);
        tr_int("aadlen", s->aadlen);
        tr_int("ivlen", s->ivlen);
        tr_int("taglen", s->taglen);
        tr_ints("segs", (const int *) s->seg, s->nseg);
        tr_int("seedlo", (long long) (s->seed & 0xffffff));
        tr_end();

        int sig = sigsetjmp(hx_fault_jmp, 1);
        if (sig != 0) {
                alarm(0);
                const ga_obj *o = ga_find((const void *) hx_fault_addr);
                tr_begin("SglFault");
                tr_int("sig", sig);
                tr_str("obj", o ? o->name : "?");
                tr_int("off", o ? (long long) ((const uint8_t *) hx_fault_addr - o->ptr) : 0);
                tr_int("size", o ? (long long) o->size : 0);
                tr_end();
                free_mb_mgr(M);
                M = hx_mgr_new(V);
                goto done;
        }
        alarm(30);
        /* ---------------- one-shot reference (the non-SGL job) ---------------- */
        const uint8_t *in_for_run = msg;
        uint8_t *ct = NULL;
        if (s->alg != A_GMAC && s->dir == IMB_DIR_DECRYPT) {
                /* produce ciphertext first (one-shot encrypt), the sessions then decrypt it */
                ct = malloc(T + 1);
                IMB_JOB *j = IMB_GET_NEXT_JOB(M);
                memset(j, 0, sizeof(*j));
                j->cipher_direction = IMB_DIR_ENCRYPT;
                j->chain_order = IMB_ORDER_CIPHER_HASH;
                j->src = msg;
                j->dst = ct;
                j->msg_len_to_cipher_in_bytes = T;
                j->msg_len_to_hash_in_bytes = T;
                j->iv = ivb;
                j->iv_len_in_bytes = s->ivlen;
                j->auth_tag_output = ref_tag;
                j->auth_tag_output_len_in_bytes = s->taglen;
                if (s->alg == A_GCM) {
                        j->cipher_mode = IMB_CIPHER_GCM;
                        j->hash_alg = IMB_AUTH_AES_GMAC;
                        j->enc_keys = j->dec_keys = gk;
                        j->key_len_in_bytes = s->kl;
                        j->u.GCM.aad = aadb;
                        j->u.GCM.aad_len_in_bytes = s->aadlen;
                } else {
                        j->cipher_mode = IMB_CIPHER_CHACHA20_POLY1305;
                        j->hash_alg = IMB_AUTH_CHACHA20_POLY1305;
                        j->enc_keys = j->dec_keys = kraw;
                        j->key_len_in_bytes = 32;
                        j->u.CHACHA20_POLY1305.aad = aadb;
                        j->u.CHACHA20_POLY1305.aad_len_in_bytes = s->aadlen;
                }
                IMB_JOB *rj = IMB_SUBMIT_JOB(M);
                if (!rj)
                        rj = IMB_FLUSH_JOB(M);
                in_for_run = ct;
        }
        {
                IMB_JOB *j = IMB_GET_NEXT_JOB(M);
                memset(j, 0, sizeof(*j));
                j->cipher_direction = s->alg == A_GMAC ? IMB_DIR_ENCRYPT : s->dir;
                j->chain_order = j->cipher_direction == IMB_DIR_ENCRYPT ? IMB_ORDER_CIPHER_HASH
                                                                        : IMB_ORDER_HASH_CIPHER;
                j->src = in_for_run;
                j->dst = ref_out;
                j->msg_len_to_cipher_in_bytes = T;
                j->msg_len_to_hash_in_bytes = T;
                j->iv = ivb;
                j->iv_len_in_bytes = s->ivlen;
                j->auth_tag_output = ref_tag;
                j->auth_tag_output_len_in_bytes = s->taglen;
                if (s->alg == A_GCM) {
                        j->cipher_mode = IMB_CIPHER_GCM;
                        j->hash_alg = IMB_AUTH_AES_GMAC;
                        j->enc_keys = j->dec_keys = gk;
                        j->key_len_in_bytes = s->kl;
                        j->u.GCM.aad = aadb;
                        j->u.GCM.aad_len_in_bytes = s->aadlen;
                } else if (s->alg == A_GMAC) {
                        j->cipher_mode = IMB_CIPHER_NULL;
                        j->chain_order = IMB_ORDER_HASH_CIPHER;
                        j->hash_alg = s->kl == 16   ? IMB_AUTH_AES_GMAC_128
                                      : s->kl == 24 ? IMB_AUTH_AES_GMAC_192
                                                    : IMB_AUTH_AES_GMAC_256;
                        j->u.GMAC._key = gk;
                        j->u.GMAC._iv = ivb;
                        j->u.GMAC.iv_len_in_bytes = s->ivlen;
                        j->msg_len_to_cipher_in_bytes = 0;
                        j->dst = NULL;
                } else {
                        j->cipher_mode = IMB_CIPHER_CHACHA20_POLY1305;
                        j->hash_alg = IMB_AUTH_CHACHA20_POLY1305;
                        j->enc_keys = j->dec_keys = kraw;
                        j->key_len_in_bytes = 32;
                        j->u.CHACHA20_POLY1305.aad = aadb;
                        j->u.CHACHA20_POLY1305.aad_len_in_bytes = s->aadlen;
                }
                IMB_JOB *rj = IMB_SUBMIT_JOB(M);
                if (!rj)
                        rj = IMB_FLUSH_JOB(M);
                if (!rj || rj->status != IMB_STATUS_COMPLETED) {
                        tr_begin("SglRefFail");
                        tr_int("st", rj ? (int) rj->status : -1);
                        tr_int("errno", M->imb_errno);
                        tr_end();
                        goto done_alarm;
                }
        }
        /* ---------------- segments: each its own guarded object ---------------- */
        uint8_t *sin[64], *sout[64];
        uint32_t off = 0;
        for (int i = 0; i < s->nseg; i++) {
                uint32_t n = s->seg[i];
                sin[i] = ga_alloc(n ? n : 1, 1, (s->seed >> i) & 1 ? GA_END : (n ? GA_END : GA_START), "seg_in", i);
                sout[i] = s->alg == A_GMAC ? NULL : ga_alloc(n ? n : 1, 1, GA_END, "seg_out", i);
                memcpy(sin[i], in_for_run + off, n);
                off += n;
        }
        uint8_t *tagb = ga_alloc(s->taglen, 1, GA_END, "tag", 1);
        memset(tagb, 0xEE, s->taglen);
        const int enc = s->dir == IMB_DIR_ENCRYPT;
        if (s->iface == 0) {
                /* ---- direct API ---- */
                if (s->alg == A_GCM) {
                        if (s->kl == 16)
                                IMB_AES128_GCM_INIT_VAR_IV(M, gk, gctx, ivb, s->ivlen, aadb, s->aadlen);
                        else if (s->kl == 24)
                                IMB_AES192_GCM_INIT_VAR_IV(M, gk, gctx, ivb, s->ivlen, aadb, s->aadlen);
                        else
                                IMB_AES256_GCM_INIT_VAR_IV(M, gk, gctx, ivb, s->ivlen, aadb, s->aadlen);
                } else if (s->alg == A_GMAC) {
                        if (s->kl == 16)
                                IMB_AES128_GMAC_INIT(M, gk, gctx, ivb, s->ivlen);
                        else if (s->kl == 24)
                                IMB_AES192_GMAC_INIT(M, gk, gctx, ivb, s->ivlen);
                        else
                                IMB_AES256_GMAC_INIT(M, gk, gctx, ivb, s->ivlen);
                } else
                        IMB_CHACHA20_POLY1305_INIT(M, kraw, cctx, ivb, aadb, s->aadlen);
                ncalls_sgl++;
                log_ctx(s, "Init", 0, gctx, cctx);
                for (int i = 0; i < s->nseg; i++) {
                        uint32_t n = s->seg[i];
                        void *fn = NULL;
                        if (s->alg == A_GCM) {
                                fn = s->kl == 16   ? (enc ? (void *) M->gcm128_enc_update : (void *) M->gcm128_dec_update)
                                     : s->kl == 24 ? (enc ? (void *) M->gcm192_enc_update : (void *) M->gcm192_dec_update)
                                                   : (enc ? (void *) M->gcm256_enc_update : (void *) M->gcm256_dec_update);
                                hx_call(fn, 5, (uint64_t) gk, (uint64_t) gctx, (uint64_t) sout[i], (uint64_t) sin[i], (uint64_t) n);
                        } else if (s->alg == A_GMAC) {
                                fn = s->kl == 16 ? (void *) M->gmac128_update
                                                 : s->kl == 24 ? (void *) M->gmac192_update : (void *) M->gmac256_update;
                                hx_call(fn, 4, (uint64_t) gk, (uint64_t) gctx, (uint64_t) sin[i], (uint64_t) n);
                        } else {
                                fn = enc ? (void *) M->chacha20_poly1305_enc_update : (void *) M->chacha20_poly1305_dec_update;
                                hx_call(fn, 5, (uint64_t) kraw, (uint64_t) cctx, (uint64_t) sout[i], (uint64_t) sin[i], (uint64_t) n);
                        }
                        ncalls_sgl++;
                        log_ctx(s, "Upd", n, gctx, cctx);
                }
                if (s->alg == A_GCM) {
                        void *fn = s->kl == 16   ? (enc ? (void *) M->gcm128_enc_finalize : (void *) M->gcm128_dec_finalize)
                                   : s->kl == 24 ? (enc ? (void *) M->gcm192_enc_finalize : (void *) M->gcm192_dec_finalize)
                                                 : (enc ? (void *) M->gcm256_enc_finalize : (void *) M->gcm256_dec_finalize);
                        hx_call(fn, 4, (uint64_t) gk, (uint64_t) gctx, (uint64_t) tagb, (uint64_t) s->taglen);
                } else if (s->alg == A_GMAC) {
                        void *fn = s->kl == 16 ? (void *) M->gmac128_finalize
                                               : s->kl == 24 ? (void *) M->gmac192_finalize : (void *) M->gmac256_finalize;
                        hx_call(fn, 4, (uint64_t) gk, (uint64_t) gctx, (uint64_t) tagb, (uint64_t) s->taglen);
                } else
                        hx_call((void *) M->chacha20_poly1305_finalize, 3, (uint64_t) cctx, (uint64_t) tagb, (uint64_t) s->taglen);
                ncalls_sgl++;
        } else {
                /* ---- job API ---- */
                IMB_JOB tj;
                memset(&tj, 0, sizeof(tj));
                tj.cipher_direction = s->dir;
                tj.chain_order = enc ? IMB_ORDER_CIPHER_HASH : IMB_ORDER_HASH_CIPHER;
                tj.iv = ivb;
                tj.iv_len_in_bytes = s->ivlen;
                tj.auth_tag_output = tagb;
                tj.auth_tag_output_len_in_bytes = s->taglen;
                if (s->alg == A_GCM) {
                        tj.cipher_mode = IMB_CIPHER_GCM_SGL;
                        tj.hash_alg = IMB_AUTH_GCM_SGL;
                        tj.enc_keys = tj.dec_keys = gk;
                        tj.key_len_in_bytes = s->kl;
                        tj.u.GCM.aad = aadb;
                        tj.u.GCM.aad_len_in_bytes = s->aadlen;
                        tj.u.GCM.ctx = gctx;
                } else {
                        tj.cipher_mode = IMB_CIPHER_CHACHA20_POLY1305_SGL;
                        tj.hash_alg = IMB_AUTH_CHACHA20_POLY1305_SGL;
                        tj.enc_keys = tj.dec_keys = kraw;
                        tj.key_len_in_bytes = 32;
                        tj.u.CHACHA20_POLY1305.aad = aadb;
                        tj.u.CHACHA20_POLY1305.aad_len_in_bytes = s->aadlen;
                        tj.u.CHACHA20_POLY1305.ctx = cctx;
                }
                if (s->iface == 2) {
                        struct IMB_SGL_IOV *iov = ga_alloc(sizeof(*iov) * (size_t) (s->nseg ? s->nseg : 1), 8, GA_END, "iov", 1);
                        for (int i = 0; i < s->nseg; i++) {
                                iov[i].in = sin[i];
                                iov[i].out = sout[i];
                                iov[i].len = s->seg[i];
                        }
                        IMB_JOB *j = (IMB_JOB *) hx_call((void *) M->get_next_job, 1, (uint64_t) M);
                        *j = tj;
                        j->sgl_state = IMB_SGL_ALL;
                        j->sgl_io_segs = iov;
                        j->num_sgl_io_segs = (uint64_t) s->nseg;
                        IMB_JOB *rj = submit1(j);
                        ncalls_sgl++;
                        tr_begin("JobAll");
                        tr_int("st", rj ? (int) rj->status : -1);
                        tr_int("errno", M->imb_errno);
                        tr_end();
                } else {
                        /* INIT (+first segment for ChaCha20-Poly1305), UPDATE*, COMPLETE (+last segment) */
                        int first_in_init = s->alg == A_CHAPOLY && s->nseg > 0;
                        int last_in_complete = s->alg == A_CHAPOLY && s->nseg > 1;
                        IMB_JOB *j = (IMB_JOB *) hx_call((void *) M->get_next_job, 1, (uint64_t) M);
                        *j = tj;
                        j->sgl_state = IMB_SGL_INIT;
                        if (first_in_init) {
                                j->src = sin[0];
                                j->dst = sout[0];
                                j->msg_len_to_cipher_in_bytes = s->seg[0];
                                j->msg_len_to_hash_in_bytes = s->seg[0];
                        }
                        IMB_JOB *rj = submit1(j);
                        ncalls_sgl++;
                        int bad = !rj || rj->status != IMB_STATUS_COMPLETED;
                        log_ctx(s, first_in_init ? "Upd" : "Init", first_in_init ? s->seg[0] : 0, gctx, cctx);
                        int lo = first_in_init ? 1 : 0, hi = last_in_complete ? s->nseg - 1 : s->nseg;
                        for (int i = lo; i < hi && !bad; i++) {
                                j = (IMB_JOB *) hx_call((void *) M->get_next_job, 1, (uint64_t) M);
                                *j = tj;
                                j->sgl_state = IMB_SGL_UPDATE;
                                j->src = sin[i];
                                j->dst = sout[i];
                                j->msg_len_to_cipher_in_bytes = s->seg[i];
                                j->msg_len_to_hash_in_bytes = s->seg[i];
                                rj = submit1(j);
                                ncalls_sgl++;
                                bad |= !rj || rj->status != IMB_STATUS_COMPLETED;
                                log_ctx(s, "Upd", s->seg[i], gctx, cctx);
                        }
                        j = (IMB_JOB *) hx_call((void *) M->get_next_job, 1, (uint64_t) M);
                        *j = tj;
                        j->sgl_state = IMB_SGL_COMPLETE;
                        if (last_in_complete) {
                                int i = s->nseg - 1;
                                j->src = sin[i];
                                j->dst = sout[i];
                                j->msg_len_to_cipher_in_bytes = s->seg[i];
                                j->msg_len_to_hash_in_bytes = s->seg[i];
                        }
                        rj = submit1(j);
                        ncalls_sgl++;
                        bad |= !rj || rj->status != IMB_STATUS_COMPLETED;
                        tr_begin("JobStates");
                        tr_int("bad", bad);
                        tr_int("errno", M->imb_errno);
                        tr_int("last_n", last_in_complete ? (int) s->seg[s->nseg - 1] : 0);
                        tr_end();
                }
        }
        /* ---------------- verdict ---------------- */
        off = 0;
        if (s->alg != A_GMAC)
                for (int i = 0; i < s->nseg; i++) {
                        memcpy(sgl_out + off, sout[i], s->seg[i]);
                        off += s->seg[i];
                }
        memcpy(sgl_tag, tagb, s->taglen);
        const ga_obj *badobj = NULL;
        int can = ga_check_canaries(&badobj);
        int srcmod = 0;
        off = 0;
        for (int i = 0; i < s->nseg; i++) {
                if (memcmp(sin[i], in_for_run + off, s->seg[i]) != 0)
                        srcmod = 1;
                off += s->seg[i];
        }
        tr_begin("SglEnd");
        tr_int("out_eq", s->alg == A_GMAC ? 1 : memcmp(sgl_out, ref_out, T) == 0);
        tr_int("tag_eq", memcmp(sgl_tag, ref_tag, s->taglen) == 0);
        tr_int("canary", can);
        tr_int("srcmod", srcmod);
        tr_int("abi", (long long) hx_abi_viol_bits);
        tr_end();
done_alarm:
        alarm(0);
        free(ct);
done:
        free(msg);
        free(ref_out);
        free(sgl_out);
        ga_reset();
        nsess++;
}

/* random partition of total into k segments (zero-length segments allowed) */
static void
rand_partition(hx_rng *g, sess_t *s, uint32_t total, int k)
{
        uint32_t cuts[64];
        for (int i = 0; i < k - 1; i++)
                cuts[i] = hx_below(g, total + 1);
        for (int i = 0; i < k - 1; i++)
                for (int j = i + 1; j < k - 1; j++)
                        if (cuts[j] < cuts[i]) {
                                uint32_t t = cuts[i];
                                cuts[i] = cuts[j];
                                cuts[j] = t;
                        }
        uint32_t prev = 0;
        for (int i = 0; i < k - 1; i++) {
                s->seg[i] = cuts[i] - prev;
                prev = cuts[i];
        }
        s->seg[k - 1] = total - prev;
        s->nseg = k;
        s->total = total;
}

int
drv_sgl(int argc, char **argv)
{
        const char *out = NULL, *variant = "sse_t1", *algs = "gcm,gmac,chapoly";
        int maxl = 40, nrand = 200;
        uint64_t seed = 1;
        for (int i = 0; i < argc; i++) {
                if (!strcmp(argv[i], "--out"))
                        out = argv[++i];
                else if (!strcmp(argv[i], "--variant"))
                        variant = argv[++i];
                else if (!strcmp(argv[i], "--algs"))
                        algs = argv[++i];
                else if (!strcmp(argv[i], "--maxl"))
                        maxl = atoi(argv[++i]);
                else if (!strcmp(argv[i], "--rand"))
                        nrand = atoi(argv[++i]);
                else if (!strcmp(argv[i], "--seed"))
                        seed = strtoull(argv[++i], NULL, 0);
        }
        hx_trace = out ? fopen(out, "w") : stdout;
        static char tbuf[1 << 20];
        setvbuf(hx_trace, tbuf, _IOFBF, sizeof(tbuf));
        V = hx_variant_by_name(variant);
        M = V ? hx_mgr_new(V) : NULL;
        if (!M)
                return 2;
        hx_rng g;
        hx_seed(&g, seed);
        for (int alg = 0; alg < 3; alg++) {
                const char *an = alg == A_GCM ? "gcm" : alg == A_GMAC ? "gmac" : "chapoly";
                if (!strstr(algs, an))
                        continue;
                const int nif = alg == A_GMAC ? 1 : 3;
                /* (a) exhaustive two- and three-segment partitions of short messages */
                for (int Lm = 0; Lm <= maxl; Lm++)
                        for (int a = 0; a <= Lm; a++) {
                                int b_lo = a, b_hi = (Lm <= 24) ? Lm : a; /* 3 segments only for very short ones */
                                for (int b = b_lo; b <= b_hi; b++) {
                                        sess_t s;
                                        memset(&s, 0, sizeof(s));
                                        s.alg = alg;
                                        s.kl = alg == A_CHAPOLY ? 32 : (int[]){ 16, 24, 32 }[hx_below(&g, 3)];
                                        s.dir = alg == A_GMAC ? IMB_DIR_ENCRYPT : 1 + (int) hx_below(&g, 2);
                                        s.iface = (int) hx_below(&g, (uint32_t) nif);
                                        s.total = (uint32_t) Lm;
                                        s.seg[0] = (uint32_t) a;
                                        s.seg[1] = (uint32_t) (b - a);
                                        s.seg[2] = (uint32_t) (Lm - b);
                                        s.nseg = 3;
                                        s.aadlen = hx_below(&g, 4) ? hx_below(&g, 40) : hx_below(&g, 300);
                                        s.ivlen = 12;
                                        s.taglen = alg == A_CHAPOLY ? 16 : (hx_below(&g, 2) ? 16 : 1 + hx_below(&g, 16));
                                        s.seed = hx_rand(&g);
                                        session(&s);
                                }
                        }
                /* (b) random partitions, longer messages, up to 40 segments incl. empty ones */
                for (int it = 0; it < nrand; it++) {
                        sess_t s;
                        memset(&s, 0, sizeof(s));
                        s.alg = alg;
                        s.kl = alg == A_CHAPOLY ? 32 : (int[]){ 16, 24, 32 }[hx_below(&g, 3)];
                        s.dir = alg == A_GMAC ? IMB_DIR_ENCRYPT : 1 + (int) hx_below(&g, 2);
                        s.iface = (int) hx_below(&g, (uint32_t) nif);
                        uint32_t total = hx_below(&g, 3) ? hx_below(&g, 600) : hx_below(&g, 8200);
                        rand_partition(&g, &s, total, 1 + (int) hx_below(&g, hx_below(&g, 4) ? 6 : 40));
                        s.aadlen = hx_below(&g, 4) ? hx_below(&g, 40) : hx_below(&g, 600);
                        s.ivlen = (alg == A_CHAPOLY || hx_below(&g, 4)) ? 12 : 1 + hx_below(&g, 64);
                        s.taglen = alg == A_CHAPOLY ? 16 : (hx_below(&g, 2) ? 16 : 1 + hx_below(&g, 16));
                        s.seed = hx_rand(&g);
                        session(&s);
                }
        }
        /* (c) counter-carry split windows (GCM, 96-bit IV: block counter starts at 2): the first segment ends where the
         * counter low byte is about to wrap in the next 16 / 32 blocks, the second segment is long enough to enter the
         * multi-block paths; every split position in the windows */
        if (strstr(algs, "gcm")) {
                static const int win[][2] = { { 3536, 3600 }, { 3790, 3850 }, { 7630, 7700 }, { 7886, 7946 } };
                for (int w = 0; w < 4; w++)
                        for (int a = win[w][0]; a <= win[w][1]; a++) {
                                sess_t s;
                                memset(&s, 0, sizeof(s));
                                s.alg = A_GCM;
                                s.kl = (int[]){ 16, 24, 32 }[a % 3];
                                s.dir = 1 + (a & 1);
                                s.iface = (a / 2) % 3;
                                s.seg[0] = (uint32_t) a;
                                s.seg[1] = 600;
                                s.nseg = 2;
                                s.total = (uint32_t) a + 600;
                                s.aadlen = 13;
                                s.ivlen = 12;
                                s.taglen = 16;
                                s.seed = hx_rand(&g);
                                session(&s);
                        }
        }
        tr_begin("SglDone");
        tr_int("sessions", nsess);
        tr_end();
        fclose(hx_trace);
        fprintf(stderr, "{\"sessions\":%ld,\"calls\":%ld,\"abi_viol\":%d}\n", nsess, ncalls_sgl, hx_abi_viol_total);
        return 0;
}
