/* C12: one implementation test per element of the constraint catalogue exported by TLC from
 * spec/JobRules.tla.  `imbdrv kinds` lists the catalogue suites for the export; `imbdrv invalid`
 * applies every rule (field, class) to a valid baseline job and records what the library does through
 * the single-job API and the burst API, plus the burst-call misuse rules. */
#define _GNU_SOURCE
#include "hx.h"
#include <stdlib.h>
#include <string.h>
#include <unistd.h>

static IMB_MGR *M;
static const hx_variant *V;

int
drv_kinds(int argc, char **argv)
{
        const char *out = NULL;
        for (int i = 0; i < argc; i++)
                if (!strcmp(argv[i], "--out"))
                        out = argv[++i];
        hx_trace = out ? fopen(out, "w") : stdout;
        hx_rng g;
        hx_seed(&g, 1);
        for (int k = 0; k < hx_nkinds; k++) {
                hx_spec sp;
                if (!hx_spec_from_kind(hx_kinds[k], &g, &sp))
                        continue;
                tr_begin("Kind");
                tr_str("kind", hx_kinds[k]);
                tr_int("mode", sp.cm);
                tr_int("klen", sp.kl ? sp.kl : 16);
                tr_int("dir", sp.dir);
                tr_int("hash", sp.ha);
                tr_int("order", sp.order);
                tr_end();
        }
        fclose(hx_trace);
        return 0;
}

static long
jint(const char *line, const char *key)
{
        char pat[64];
        snprintf(pat, sizeof(pat), "\"%s\":", key);
        const char *p = strstr(line, pat);
        return p ? strtol(p + strlen(pat), NULL, 10) : 0;
}
static void
jstr(const char *line, const char *key, char *out, size_t n)
{
        char pat[64];
        snprintf(pat, sizeof(pat), "\"%s\":\"", key);
        const char *p = strstr(line, pat);
        out[0] = 0;
        if (!p)
                return;
        p += strlen(pat);
        size_t i = 0;
        while (*p && *p != '"' && i + 1 < n)
                out[i++] = *p++;
        out[i] = 0;
}

/* a class that stands for several values is a sweep, not a sample: apply_rule() sets rule_nalt to the number of values
 * of the class it was asked for and instantiates value number rule_alt; the walk repeats the element for each of them */
static int rule_alt = 0, rule_nalt = 1;

/* apply (field, cls) to the descriptor; returns 0 when the driver does not know the rule */
static int
apply_rule(hx_job *j, const char *f, const char *c)
{
        IMB_JOB *t = &j->tmpl;
        const hx_spec *sp = &j->sp;
#define IS(a, b) (!strcmp(f, a) && !strcmp(c, b))
        if (IS("src", "null"))
                t->src = NULL;
        else if (IS("dst", "null"))
                t->dst = NULL;
        else if (IS("iv", "null"))
                t->iv = NULL;
        else if (IS("enc_keys", "null"))
                t->enc_keys = NULL;
        else if (IS("dec_keys", "null"))
                t->dec_keys = NULL;
        else if (IS("key_len", "unsupported")) {
                /* a key size of the API's enum that the mode does not take */
                static const int ks[] = { 8, 16, 24, 32 };
                for (int i = 0; i < 4; i++) {
                        hx_spec tmp;
                        hx_rng g;
                        hx_seed(&g, 1);
                        if (!hx_spec_for(sp->cm, ks[i], IMB_AUTH_NULL, sp->dir, 0, &g, &tmp)) {
                                t->key_len_in_bytes = (uint64_t) ks[i];
                                return 1;
                        }
                }
                return 0;
        } else if (IS("cipher_len", "zero"))
                t->msg_len_to_cipher_in_bytes = 0;
        else if (IS("cipher_len", "unaligned"))
                t->msg_len_to_cipher_in_bytes += 1;
        else if (IS("cipher_len", "over16"))
                t->msg_len_to_cipher_in_bytes = (sp->cm == IMB_CIPHER_DOCSIS_SEC_BPI || sp->cm == IMB_CIPHER_CCM ||
                                                 sp->cm == IMB_CIPHER_DOCSIS_DES)
                                                        ? 65535
                                                        : 65536;
        else if (IS("iv_len", "bad"))
                t->iv_len_in_bytes = 5;
        else if (IS("iv_len", "zero"))
                t->iv_len_in_bytes = 0;
        else if (IS("next_iv", "null"))
                t->cipher_fields.CBCS.next_iv = NULL;
        else if (IS("cipher_dir", "bad"))
                t->cipher_direction = (IMB_CIPHER_DIRECTION) 3;
        else if (IS("cipher_mode", "unsupported"))
                t->cipher_mode = (IMB_CIPHER_MODE) ((sp->seed & 1) ? 0 : IMB_CIPHER_NUM);
        else if (IS("hash_alg", "unsupported"))
                t->hash_alg = (IMB_HASH_ALG) ((sp->seed & 1) ? 0 : IMB_AUTH_NUM);
        else if (IS("tag", "null"))
                t->auth_tag_output = NULL;
        else if (IS("tag_len", "zero"))
                t->auth_tag_output_len_in_bytes = 0;
        else if (IS("tag_len", "over"))
                t->auth_tag_output_len_in_bytes = 65;
        else if (IS("tag_len", "other")) {
                uint64_t v = t->auth_tag_output_len_in_bytes;
                /* a length strictly between the permitted ones */
                switch (sp->ha) {
                case IMB_AUTH_HMAC_SHA_1:
                case IMB_AUTH_HMAC_SHA_224:
                case IMB_AUTH_HMAC_SHA_256:
                case IMB_AUTH_HMAC_SHA_384:
                case IMB_AUTH_HMAC_SHA_512:
                case IMB_AUTH_MD5: {
                        /* permitted: the truncated (IPsec) and the full (FIPS) length - every other length 1..64;
                         * value 0 of the sweep is the one just above the truncated length */
                        const int tr = sp->ha == IMB_AUTH_HMAC_SHA_1     ? 12
                                       : sp->ha == IMB_AUTH_HMAC_SHA_224 ? 14
                                       : sp->ha == IMB_AUTH_HMAC_SHA_256 ? 16
                                       : sp->ha == IMB_AUTH_HMAC_SHA_384 ? 24
                                       : sp->ha == IMB_AUTH_HMAC_SHA_512 ? 32
                                                                         : 12;
                        const int full = sp->ha == IMB_AUTH_HMAC_SHA_1     ? 20
                                         : sp->ha == IMB_AUTH_HMAC_SHA_224 ? 28
                                         : sp->ha == IMB_AUTH_HMAC_SHA_256 ? 32
                                         : sp->ha == IMB_AUTH_HMAC_SHA_384 ? 48
                                         : sp->ha == IMB_AUTH_HMAC_SHA_512 ? 64
                                                                           : 16;
                        int cand[64], nc = 0;
                        cand[nc++] = tr + 1;
                        for (int x = 1; x <= 64; x++)
                                if (x != tr && x != full && x != tr + 1)
                                        cand[nc++] = x;
                        rule_nalt = nc;
                        v = (uint64_t) cand[rule_alt % nc];
                        break;
                }
                case IMB_AUTH_ZUC256_EIA3_BITLEN: {
                        /* permitted: 4, 8, 16 - every other length up to 20 */
                        static const int zt[] = { 5, 1, 2, 3, 6, 7, 9, 10, 11, 12, 13, 14, 15, 17, 18, 19, 20 };
                        rule_nalt = (int) (sizeof(zt) / sizeof(zt[0]));
                        v = (uint64_t) zt[rule_alt % rule_nalt];
                        break;
                }
                default:
                        v = v > 1 ? v - 1 : v + 1;
                        break;
                }
                t->auth_tag_output_len_in_bytes = v;
        } else if (IS("tag_len", "odd"))
                t->auth_tag_output_len_in_bytes = 7;
        else if (IS("hash_len", "zero"))
                t->msg_len_to_hash_in_bytes = 0;
        else if (IS("hash_len", "over16"))
                t->msg_len_to_hash_in_bytes = sp->ha == IMB_AUTH_AES_CMAC_BITLEN ? 65535ULL * 8 : 65535;
        else if (IS("ipad", "null"))
                t->u.HMAC._hashed_auth_key_xor_ipad = NULL;
        else if (IS("opad", "null"))
                t->u.HMAC._hashed_auth_key_xor_opad = NULL;
        else if (IS("xcbc_k1", "null"))
                t->u.XCBC._k1_expanded = NULL;
        else if (IS("xcbc_k2", "null"))
                t->u.XCBC._k2 = NULL;
        else if (IS("xcbc_k3", "null"))
                t->u.XCBC._k3 = NULL;
        else if (IS("cmac_key", "null"))
                t->u.CMAC._key_expanded = NULL;
        else if (IS("cmac_sk1", "null"))
                t->u.CMAC._skey1 = NULL;
        else if (IS("cmac_sk2", "null"))
                t->u.CMAC._skey2 = NULL;
        else if (IS("gmac_key", "null"))
                t->u.GMAC._key = NULL;
        else if (IS("gmac_iv", "null"))
                t->u.GMAC._iv = NULL;
        else if (IS("gmac_iv_len", "zero"))
                t->u.GMAC.iv_len_in_bytes = 0;
        else if (IS("ghash_key", "null"))
                t->u.GHASH._key = NULL;
        else if (IS("ghash_init", "null"))
                t->u.GHASH._init_tag = NULL;
        else if (IS("poly_key", "null"))
                t->u.POLY1305._key = NULL;
        else if (IS("zuc_akey", "null"))
                t->u.ZUC_EIA3._key = NULL;
        else if (IS("zuc_aiv", "null")) {
                t->u.ZUC_EIA3._iv = NULL;
                t->u.ZUC_EIA3._iv23 = NULL;
        } else if (IS("snow3g_akey", "null"))
                t->u.SNOW3G_UIA2._key = NULL;
        else if (IS("snow3g_aiv", "null"))
                t->u.SNOW3G_UIA2._iv = NULL;
        else if (IS("kasumi_akey", "null"))
                t->u.KASUMI_UIA1._key = NULL;
        else if (IS("aad", "null")) {
                /* same layout for all AEAD members of the union: aad pointer, then length */
                t->u.GCM.aad = NULL;
                if (t->u.GCM.aad_len_in_bytes == 0)
                        t->u.GCM.aad_len_in_bytes = 8;
        } else if (IS("aad_len", "over"))
                t->u.CCM.aad_len_in_bytes = 47;
        else if (IS("ccm_hash_len", "differs"))
                t->msg_len_to_hash_in_bytes += 1;
        else if (IS("ccm_hash_off", "differs"))
                t->hash_start_src_offset_in_bytes += 1;
        else if (IS("cipher_len", "huge"))
                t->msg_len_to_cipher_in_bytes = 1ULL << 61;
        else if (IS("des3_k1", "null") || IS("des3_k2", "null") || IS("des3_k3", "null")) {
                static const void *kp[3];
                const void *const *cur = (const void *const *) (sp->dir == IMB_DIR_ENCRYPT ? t->enc_keys : t->dec_keys);
                memcpy(kp, cur, sizeof(kp));
                kp[f[6] - '1'] = NULL;
                t->enc_keys = t->dec_keys = kp;
        } else if (IS("ccm_hash_len", "over16"))
                t->msg_len_to_hash_in_bytes = 65536;
        else if (IS("docsis_crc", "cipher_too_long"))
                t->msg_len_to_cipher_in_bytes = t->msg_len_to_hash_in_bytes;
        else if (IS("docsis_crc", "offset_below"))
                t->cipher_start_src_offset_in_bytes = t->hash_start_src_offset_in_bytes + 11;
        else if (IS("docsis_crc", "hash_over16"))
                t->msg_len_to_hash_in_bytes = 65536;
        else if (IS("cipher_func", "null"))
                t->cipher_func = NULL;
        else if (IS("hash_func", "null"))
                t->hash_func = NULL;
        else if (IS("pon_dst", "elsewhere"))
                t->dst = t->dst + 4;
        else if (IS("cipher_len", "unaligned4"))
                t->msg_len_to_cipher_in_bytes += 2;
        else if (IS("cipher_len", "overpon"))
                t->msg_len_to_cipher_in_bytes = (1 << 14) + 4;
        else if (IS("key_len", "pon32"))
                t->key_len_in_bytes = 32;
        else if (IS("pon_pli", "plus1") || IS("pon_pli", "plus4")) {
                /* PLI just above the ciphered range (the header is caller data: the snapshot follows) */
                uint32_t pli = (uint32_t) t->msg_len_to_cipher_in_bytes + (c[4] == '1' ? 1 : 4);
                uint8_t *h = j->src + sp->hoff;
                h[0] = (uint8_t) (pli >> 6);
                h[1] = (uint8_t) ((h[1] & 0x03) | ((pli & 0x3f) << 2));
                memcpy(j->src_snapshot + sp->hoff, h, 2);
        } else if (IS("hash_len", "unaligned4"))
                t->msg_len_to_hash_in_bytes += 2;
        else if (IS("hash_len", "lt8"))
                t->msg_len_to_hash_in_bytes = 4;
        else if (IS("hash_len", "overpon"))
                t->msg_len_to_hash_in_bytes = (1 << 14) + 8 + 4;
        else if (IS("chain_order", "flipped"))
                t->chain_order = t->chain_order == IMB_ORDER_CIPHER_HASH ? IMB_ORDER_HASH_CIPHER
                                                                         : IMB_ORDER_CIPHER_HASH;
        else
                return 0;
#undef IS
        return 1;
}

static int
untouched(const hx_job *j)
{
        if (memcmp(j->src, j->src_snapshot, j->src_size) != 0)
                return 0;
        if (j->dst_pre && memcmp(j->dst, j->dst_pre, j->dst_size ? j->dst_size : 1) != 0)
                return 0;
        if (j->tag && memcmp(j->tag, j->tag_pre, j->sp.taglen) != 0)
                return 0;
        if (j->next_iv) {
                for (int i = 0; i < 16; i++)
                        if (j->next_iv[i] != 0xEE)
                                return 0;
        }
        return 1;
}

static void
fresh_mgr(void)
{
        if (M)
                free_mb_mgr(M);
        M = hx_mgr_new(V);
}

/* returns status (or -sig), *err = errno field right after the submit call */
static int
submit_job_api(hx_job *j, int *err)
{
        int sig = sigsetjmp(hx_fault_jmp, 1);
        if (sig != 0) {
                alarm(0);
                fresh_mgr();
                return -sig;
        }
        alarm(20);
        IMB_JOB *slot = (IMB_JOB *) hx_call((void *) M->get_next_job, 1, (uint64_t) M);
        hx_job_to_slot(j, slot);
        IMB_JOB *r = (IMB_JOB *) hx_call((void *) M->submit_job, 1, (uint64_t) M);
        *err = M->imb_errno;
        if (!r)
                r = (IMB_JOB *) hx_call((void *) M->flush_job, 1, (uint64_t) M);
        alarm(0);
        int st = (r == slot) ? (int) r->status : -2;
        while (IMB_FLUSH_JOB(M) != NULL)
                ;
        return st;
}

/* stale: 0 none, 1 cipher half, 2 hash half, 3 both; misuse: 0 none, 1 NULL job entry, 2 out of order */
static int
submit_burst_api(hx_job *j, int *err, uint32_t *nret, int stale, int misuse, uint32_t *qafter)
{
        int sig = sigsetjmp(hx_fault_jmp, 1);
        if (sig != 0) {
                alarm(0);
                fresh_mgr();
                return -sig;
        }
        alarm(20);
        IMB_JOB *arr[4];
        uint32_t g = (uint32_t) hx_call((void *) M->get_next_burst, 3, (uint64_t) M, (uint64_t) 2, (uint64_t) arr);
        if (g != 2) {
                alarm(0);
                return -3;
        }
        IMB_JOB *slot = arr[0];
        hx_job_to_slot(j, slot);
        /* session of the valid baseline suite first; the rule's field change follows it */
        slot->suite_id[0] = slot->suite_id[1] = 0;
        M->set_suite_id(M, slot);
        if (stale & 1)
                slot->suite_id[0] ^= 4; /* another mode's row */
        if (stale & 2)
                slot->suite_id[1] = slot->suite_id[1] == IMB_AUTH_HMAC_SHA_1 ? IMB_AUTH_HMAC_SHA_256
                                                                               : IMB_AUTH_HMAC_SHA_1;
        IMB_JOB *sub[2] = { slot, NULL };
        uint32_t n = 1;
        if (misuse == 1) {
                sub[0] = NULL;
        } else if (misuse == 2) {
                sub[0] = arr[1]; /* second offered slot first: out of order */
                hx_job_to_slot(j, arr[1]);
                M->set_suite_id(M, arr[1]);
                slot = arr[1];
        }
        *nret = (uint32_t) hx_call((void *) M->submit_burst, 3, (uint64_t) M, (uint64_t) n, (uint64_t) sub);
        *err = M->imb_errno;
        int st;
        if (*nret == 0 && *err != 0)
                st = slot ? (int) slot->status : -4;
        else {
                uint32_t k = *nret;
                if (k == 0)
                        k = (uint32_t) hx_call((void *) M->flush_burst, 3, (uint64_t) M, (uint64_t) 1, (uint64_t) sub);
                st = (k == 1 && sub[0] == slot) ? (int) slot->status : -2;
        }
        *qafter = (uint32_t) IMB_QUEUE_SIZE(M);
        alarm(0);
        IMB_JOB *tmp[IMB_MAX_JOBS];
        while (IMB_FLUSH_BURST(M, IMB_MAX_JOBS, tmp) != 0)
                ;
        return st;
}

/* a valid job of another suite right after a rejection must be processed correctly */
static int
followup_ok(hx_rng *g)
{
        static const char *fk[] = { "CBC128E+HMAC1", "CTR128E", "+SHA256", "GCM128E", "CBC256D+HMAC512", "+CMAC" };
        hx_spec sp;
        hx_spec_from_kind(fk[hx_below(g, 6)], g, &sp);
        sp.placement = GA_SLACK;
        hx_job a, b;
        if (hx_job_build(M, &sp, 5, &a) != 0)
                return 0;
        int err = 0;
        int st = submit_job_api(&a, &err);
        int ok = st == IMB_STATUS_COMPLETED && err == 0;
        if (ok) {
                int st2 = hx_run_alone(V, &sp, &b);
                ok = st2 == st && hx_job_cmp_out(&a, &b) == 0;
                hx_job_free(&b);
        }
        hx_job_free(&a);
        return ok;
}


/* ---------- scatter-gather suites (GCM_SGL, CHACHA20_POLY1305_SGL): hand-built sessions ---------- */
static long nsgl;
typedef struct {
        int gcm, kl;
        struct gcm_key_data gk __attribute__((aligned(64)));
        struct gcm_context_data gctx __attribute__((aligned(64)));
        struct chacha20_poly1305_context_data cctx __attribute__((aligned(64)));
        uint8_t key[32], iv[12], aad[20], tag[16], in[3][80], out[3][80];
        struct IMB_SGL_IOV iov[3];
} sgl_env;
static const uint32_t sgl_len[3] = { 33, 64, 17 };

static void
sgl_fill(sgl_env *e, hx_rng *g, int gcm)
{
        memset(e, 0, sizeof(*e));
        e->gcm = gcm;
        e->kl = gcm ? 16 + 8 * (int) hx_below(g, 3) : 32;
        hx_fill(g, e->key, 32);
        hx_fill(g, e->iv, 12);
        hx_fill(g, e->aad, 20);
        for (int i = 0; i < 3; i++) {
                hx_fill(g, e->in[i], 80);
                memset(e->out[i], 0xEE, 80);
        }
        memset(e->tag, 0xEE, 16);
        if (gcm) {
                if (e->kl == 16)
                        IMB_AES128_GCM_PRE(M, e->key, &e->gk);
                else if (e->kl == 24)
                        IMB_AES192_GCM_PRE(M, e->key, &e->gk);
                else
                        IMB_AES256_GCM_PRE(M, e->key, &e->gk);
        }
}

/* state: 0 init 1 update 2 complete 3 all; seg = which segment the job carries (-1 none) */
static void
sgl_job(sgl_env *e, IMB_JOB *j, int state, int seg)
{
        memset(j, 0, sizeof(*j));
        j->cipher_direction = IMB_DIR_ENCRYPT;
        j->chain_order = IMB_ORDER_CIPHER_HASH;
        j->iv = e->iv;
        j->iv_len_in_bytes = 12;
        j->auth_tag_output = e->tag;
        j->auth_tag_output_len_in_bytes = 16;
        if (e->gcm) {
                j->cipher_mode = IMB_CIPHER_GCM_SGL;
                j->hash_alg = IMB_AUTH_GCM_SGL;
                j->enc_keys = j->dec_keys = &e->gk;
                j->key_len_in_bytes = (uint64_t) e->kl;
                j->u.GCM.aad = e->aad;
                j->u.GCM.aad_len_in_bytes = 20;
                j->u.GCM.ctx = &e->gctx;
        } else {
                j->cipher_mode = IMB_CIPHER_CHACHA20_POLY1305_SGL;
                j->hash_alg = IMB_AUTH_CHACHA20_POLY1305_SGL;
                j->enc_keys = j->dec_keys = e->key;
                j->key_len_in_bytes = 32;
                j->u.CHACHA20_POLY1305.aad = e->aad;
                j->u.CHACHA20_POLY1305.aad_len_in_bytes = 20;
                j->u.CHACHA20_POLY1305.ctx = &e->cctx;
        }
        j->sgl_state = state == 0 ? IMB_SGL_INIT : state == 1 ? IMB_SGL_UPDATE : state == 2 ? IMB_SGL_COMPLETE : IMB_SGL_ALL;
        if (state == 3) {
                for (int i = 0; i < 3; i++) {
                        e->iov[i].in = e->in[i];
                        e->iov[i].out = e->out[i];
                        e->iov[i].len = sgl_len[i];
                }
                j->sgl_io_segs = e->iov;
                j->num_sgl_io_segs = 3;
        } else if (seg >= 0) {
                j->src = e->in[seg];
                j->dst = e->out[seg];
                j->msg_len_to_cipher_in_bytes = sgl_len[seg];
                j->msg_len_to_hash_in_bytes = sgl_len[seg];
        }
}

/* returns status or -sig */
static int
sgl_submit(const IMB_JOB *tj, int *err)
{
        int sig = sigsetjmp(hx_fault_jmp, 1);
        if (sig != 0) {
                alarm(0);
                fresh_mgr();
                return -sig;
        }
        alarm(20);
        IMB_JOB *slot = (IMB_JOB *) hx_call((void *) M->get_next_job, 1, (uint64_t) M);
        *slot = *tj;
        IMB_JOB *r = (IMB_JOB *) hx_call((void *) M->submit_job, 1, (uint64_t) M);
        *err = M->imb_errno;
        if (!r)
                r = (IMB_JOB *) hx_call((void *) M->flush_job, 1, (uint64_t) M);
        alarm(0);
        return (r == slot) ? (int) r->status : -2;
}

/* runs the accepted prefix of a session up to (not including) the job of state `state`; returns 0 when accepted */
static int
sgl_prefix(sgl_env *e, int state)
{
        IMB_JOB j;
        int err = 0;
        if (state == 1 || state == 2) {
                sgl_job(e, &j, 0, e->gcm ? -1 : 0);
                if (sgl_submit(&j, &err) != IMB_STATUS_COMPLETED)
                        return 1;
        }
        if (state == 2) {
                sgl_job(e, &j, 1, 1);
                if (sgl_submit(&j, &err) != IMB_STATUS_COMPLETED)
                        return 1;
        }
        return 0;
}

static int
sgl_apply(sgl_env *e, IMB_JOB *j, const char *f, const char *c)
{
#define IS(a, b) (!strcmp(f, a) && !strcmp(c, b))
        if (IS("hash_alg", "foreign"))
                j->hash_alg = IMB_AUTH_HMAC_SHA_1;
        else if (IS("keys", "null"))
                j->enc_keys = j->dec_keys = NULL;
        else if (IS("key_len", "bad"))
                j->key_len_in_bytes = e->gcm ? 8 : 16;
        else if (IS("iv", "null"))
                j->iv = NULL;
        else if (IS("iv_len", "zero"))
                j->iv_len_in_bytes = 0;
        else if (IS("iv_len", "bad"))
                j->iv_len_in_bytes = 8;
        else if (IS("sgl_ctx", "null")) {
                if (e->gcm)
                        j->u.GCM.ctx = NULL;
                else
                        j->u.CHACHA20_POLY1305.ctx = NULL;
        } else if (IS("sgl_state", "bad"))
                j->sgl_state = (IMB_SGL_STATE) 9;
        else if (IS("src", "null"))
                j->src = NULL;
        else if (IS("dst", "null"))
                j->dst = NULL;
        else if (IS("cipher_len", "huge"))
                j->msg_len_to_cipher_in_bytes = 1ULL << 61;
        else if (IS("seg_in", "null"))
                e->iov[1].in = NULL;
        else if (IS("seg_out", "null"))
                e->iov[1].out = NULL;
        else if (IS("seg_len", "huge"))
                e->iov[0].len = 1ULL << 61;
        else if (IS("tag", "null"))
                j->auth_tag_output = NULL;
        else if (IS("tag_len", "zero"))
                j->auth_tag_output_len_in_bytes = 0;
        else if (IS("tag_len", "over"))
                j->auth_tag_output_len_in_bytes = 17;
        else if (IS("tag_len", "other"))
                j->auth_tag_output_len_in_bytes = 12;
        else if (IS("aad", "null")) {
                if (e->gcm)
                        j->u.GCM.aad = NULL;
                else
                        j->u.CHACHA20_POLY1305.aad = NULL;
        } else
                return 0;
#undef IS
        return 1;
}

static void
sgl_rule(const char *kind, const char *field, const char *cls, int exp, hx_rng *g)
{
        static sgl_env e __attribute__((aligned(64)));
        const int gcm = strncmp(kind, "GCM_SGL", 7) == 0;
        const char *stn = strchr(kind, '/') + 1;
        const int state = !strcmp(stn, "init") ? 0 : !strcmp(stn, "update") ? 1 : !strcmp(stn, "complete") ? 2 : 3;
        const int seg = state == 3 ? -1 : (state == 0 ? (gcm ? -1 : 0) : state == 1 ? 1 : 2);
        IMB_JOB j;
        int e0 = 0, e1 = 0;
        /* baseline: the same job without the violation is accepted */
        sgl_fill(&e, g, gcm);
        int base_st = sgl_prefix(&e, state) ? -9 : 0;
        if (base_st == 0) {
                sgl_job(&e, &j, state, seg);
                base_st = sgl_submit(&j, &e0);
        }
        /* the violating job on a fresh session */
        uint64_t seed2 = hx_rand(g);
        hx_rng g2;
        hx_seed(&g2, seed2);
        sgl_fill(&e, &g2, gcm);
        int st = -9, known = 0;
        if (sgl_prefix(&e, state) == 0) {
                uint8_t out_pre[3][80], tag_pre[16];
                memcpy(out_pre, e.out, sizeof(out_pre));
                memcpy(tag_pre, e.tag, 16);
                /* segments already ciphered by the prefix are not part of the comparison */
                sgl_job(&e, &j, state, seg);
                known = sgl_apply(&e, &j, field, cls);
                memcpy(out_pre, e.out, sizeof(out_pre));
                st = sgl_submit(&j, &e1);
                int unt = memcmp(out_pre, e.out, sizeof(out_pre)) == 0 && memcmp(tag_pre, e.tag, 16) == 0;
                int q1 = (int) IMB_QUEUE_SIZE(M);
                int next_ok = followup_ok(g);
                nsgl++;
                tr_begin("InvSgl");
                tr_str("kind", kind);
                tr_int("mode", gcm ? IMB_CIPHER_GCM_SGL : IMB_CIPHER_CHACHA20_POLY1305_SGL);
                tr_str("state", stn);
                tr_str("field", field);
                tr_str("cls", cls);
                tr_int("exp", exp);
                tr_int("known", known);
                tr_int("base_st", base_st);
                tr_int("base_errno", e0);
                tr_int("st", st);
                tr_int("errno", e1);
                tr_int("untouched", unt);
                tr_int("qsz", q1);
                tr_int("next_ok", next_ok);
                tr_int("abi", (long long) hx_abi_viol_bits);
                tr_end();
        }
        ga_reset();
}

int
drv_invalid(int argc, char **argv)
{
        const char *out = NULL, *variant = "avx2_t1", *rules = NULL;
        uint64_t seed = 1;
        for (int i = 0; i < argc; i++) {
                if (!strcmp(argv[i], "--out"))
                        out = argv[++i];
                else if (!strcmp(argv[i], "--variant"))
                        variant = argv[++i];
                else if (!strcmp(argv[i], "--rules"))
                        rules = argv[++i];
                else if (!strcmp(argv[i], "--seed"))
                        seed = strtoull(argv[++i], NULL, 0);
        }
        if (!rules)
                return 2;
        hx_trace = out ? fopen(out, "w") : stdout;
        static char tbuf[1 << 20];
        setvbuf(hx_trace, tbuf, _IOFBF, sizeof(tbuf));
        V = hx_variant_by_name(variant);
        if (!V)
                return 2;
        fresh_mgr();
        if (!M)
                return 2;
        FILE *rf = fopen(rules, "r");
        if (!rf)
                return 2;
        hx_rng g;
        hx_seed(&g, seed);
        tr_begin("InvBegin");
        tr_str("variant", variant);
        tr_end();
        static char line[4096];
        long n = 0, unknown = 0;
        while (fgets(line, sizeof(line), rf)) {
                char kind[64], field[32], cls[32];
                jstr(line, "kind", kind, sizeof(kind));
                jstr(line, "field", field, sizeof(field));
                jstr(line, "cls", cls, sizeof(cls));
                int exp = (int) jint(line, "err");
                if (!kind[0])
                        continue;
                if (strchr(kind, '/')) {
                        sgl_rule(kind, field, cls, exp, &g);
                        continue;
                }
                hx_spec sp;
                if (!hx_spec_from_kind(kind, &g, &sp))
                        return 2;
                /* NULL src/dst is a violation only when there is something to cipher */
                hx_docsis_shape = 2; /* DOCSIS+CRC32 rules are stated for the cipher+CRC shape */
                while (sp.cm == IMB_CIPHER_NULL && !strcmp(field, "src") && sp.hlen == 0)
                        hx_spec_from_kind(kind, &g, &sp); /* a NULL source matters only with something to hash */
                while (sp.cm == IMB_CIPHER_PON_AES_CNTR && sp.len < 8)
                        hx_spec_from_kind(kind, &g, &sp); /* PON rules are stated for a non-empty ciphered range */
                while ((!strcmp(field, "src") || !strcmp(field, "dst")) && sp.cm != IMB_CIPHER_NULL && sp.len == 0)
                        hx_spec_from_kind(kind, &g, &sp);
                sp.placement = GA_SLACK;
                /* rules about AAD need some AAD in the baseline */
                if (!strcmp(field, "aad") && sp.aadlen == 0)
                        sp.aadlen = 8;
                rule_nalt = 1;
                for (rule_alt = 0; rule_alt < rule_nalt; rule_alt++) {
                hx_job base, mut, bmut;
                int e0 = 0, e1 = 0, e2 = 0;
                hx_job_build(M, &sp, 1, &base);
                int base_st = submit_job_api(&base, &e0);
                hx_job_build(M, &sp, 2, &mut);
                int known = apply_rule(&mut, field, cls);
                if (!known)
                        unknown++;
                int st = submit_job_api(&mut, &e1);
                int unt = st < 0 ? 0 : untouched(&mut);
                int q1 = (int) IMB_QUEUE_SIZE(M);
                int next_ok = followup_ok(&g);
                /* same rule through the checked burst call */
                hx_job_build(M, &sp, 3, &bmut);
                apply_rule(&bmut, field, cls);
                /* the suite id follows the (mutated) descriptor so that only the rule under test fails */
                uint32_t nret = 0, qafter = 0;
                int sig = 0;
                (void) sig;
                IMB_JOB tmpj;
                memset(&tmpj, 0, sizeof(tmpj));
                int bst = submit_burst_api(&bmut, &e2, &nret, 0, 0, &qafter);
                int bunt = bst < 0 ? 0 : untouched(&bmut);
                if (rule_alt == 0)
                        n++;
                tr_begin("Inv");
                tr_int("alt", rule_alt);
                tr_str("kind", kind);
                tr_int("mode", sp.cm);
                tr_int("klen", sp.kl ? sp.kl : 16);
                tr_int("dir", sp.dir);
                tr_int("hash", sp.ha);
                tr_str("field", field);
                tr_str("cls", cls);
                tr_int("exp", exp);
                tr_int("known", known);
                tr_int("base_st", base_st);
                tr_int("base_errno", e0);
                tr_int("st", st);
                tr_int("errno", e1);
                tr_int("untouched", unt);
                tr_int("qsz", q1);
                tr_int("next_ok", next_ok);
                tr_int("bst", bst);
                tr_int("berrno", e2);
                tr_int("bnret", nret);
                tr_int("bqsz", qafter);
                tr_int("buntouched", bunt);
                tr_int("abi", (long long) hx_abi_viol_bits);
                tr_end();
                hx_job_free(&base);
                hx_job_free(&mut);
                hx_job_free(&bmut);
                ga_reset();
                }
                rule_alt = 0;
        }
        fclose(rf);
        /* ---- misuse of the burst calls (per suite: stale suite ids; generic: NULL entry, order) ---- */
        long nb = 0;
        for (int k = 0; k < hx_nkinds; k++) {
                for (int mis = 1; mis <= 5; mis++) {
                        hx_spec sp;
                        hx_spec_from_kind(hx_kinds[k], &g, &sp);
                        sp.placement = GA_SLACK;
                        hx_job j;
                        hx_job_build(M, &sp, 1, &j);
                        int err = 0;
                        uint32_t nret = 0, qafter = 0;
                        int stale = mis <= 3 ? mis : 0, misuse = mis == 4 ? 1 : mis == 5 ? 2 : 0;
                        /* a stale cipher half is meaningful only if the job has a cipher row of its own */
                        int bst = submit_burst_api(&j, &err, &nret, stale, misuse, &qafter);
                        nb++;
                        tr_begin("BurstMisuse");
                        tr_str("kind", hx_kinds[k]);
                        tr_int("mode", sp.cm);
                        tr_int("hash", sp.ha);
                        tr_str("misuse", mis == 1   ? "stale_cipher"
                                         : mis == 2 ? "stale_hash"
                                         : mis == 3 ? "stale_both"
                                         : mis == 4 ? "null_job"
                                                    : "out_of_order");
                        tr_int("bst", bst);
                        tr_int("berrno", err);
                        tr_int("bnret", nret);
                        tr_int("bqsz", qafter);
                        tr_int("untouched", bst < 0 ? 0 : untouched(&j));
                        tr_end();
                        hx_job_free(&j);
                        ga_reset();
                }
        }
        tr_begin("InvEnd");
        tr_int("n", n);
        tr_int("nb", nb);
        tr_int("nsgl", nsgl);
        tr_int("unknown", unknown);
        tr_end();
        fclose(hx_trace);
        fprintf(stderr, "{\"rules\":%ld,\"burst_misuse\":%ld,\"unknown\":%ld}\n", n, nb, unknown);
        return 0;
}
