/* C08 (selection half): variant selection as a function of (masked) CPU features, flags and init
 * function. Uses hook H2 (imb_verif_feature_mask). One "Sel" event per configuration. */
#define _GNU_SOURCE
#include "hx.h"
#include <stdlib.h>
#include <string.h>

extern uint64_t imb_verif_feature_mask;

static int ncb;
static int
cb(void *arg, const IMB_SELF_TEST_CALLBACK_DATA *d)
{
        (void) arg;
        (void) d;
        ncb++;
        return 1;
}

static long nsel;

static void
sel(uint64_t mask, uint64_t flags, int initfn)
{
        imb_verif_feature_mask = mask;
        IMB_MGR *m = alloc_mb_mgr(flags);
        if (!m)
                return;
        uint64_t feat_alloc = m->features;
        imb_self_test_set_cb(m, cb, NULL);
        ncb = 0;
        IMB_ARCH arch = IMB_ARCH_NONE;
        int sig = sigsetjmp(hx_fault_jmp, 1);
        int crashed = 0;
        if (sig == 0) {
                hx_in_call = 1;
                switch (initfn) {
                case 0:
                        init_mb_mgr_sse(m);
                        break;
                case 1:
                        init_mb_mgr_avx2(m);
                        break;
                case 2:
                        init_mb_mgr_avx512(m);
                        break;
                default:
                        init_mb_mgr_auto(m, &arch);
                        break;
                }
                hx_in_call = 0;
        } else
                crashed = sig;
        nsel++;
        tr_begin("Sel");
        tr_int("mask", (long long) (mask & 0x0fffffff));
        tr_int("flags", (long long) flags);
        tr_int("init", initfn);
        tr_int("feat_alloc", (long long) (feat_alloc & 0x0fffffff));
        tr_int("crashed", crashed);
        tr_int("errno", crashed ? -1 : m->imb_errno);
        tr_int("gerrno", crashed ? -1 : imb_get_errno(m));
        tr_int("used_arch", (long long) m->used_arch);
        tr_int("arch_type", (long long) m->used_arch_type);
        tr_int("arch_out", (long long) arch);
        tr_int("bound", m->submit_job != NULL);
        tr_int("ncb", ncb);
        tr_int("feat", (long long) (m->features & 0x0fffffff));
        tr_end();
        imb_verif_feature_mask = ~0ULL;
        if (!crashed)
                free_mb_mgr(m);
}

int
drv_cpusel(int argc, char **argv)
{
        const char *out = NULL;
        int full = 0;
        for (int i = 0; i < argc; i++) {
                if (!strcmp(argv[i], "--out"))
                        out = argv[++i];
                else if (!strcmp(argv[i], "--full"))
                        full = 1;
        }
        hx_trace = out ? fopen(out, "w") : stdout;
        static char tbuf[1 << 20];
        setvbuf(hx_trace, tbuf, _IOFBF, sizeof(tbuf));
        uint64_t host = imb_get_feature_flags();
        tr_begin("Host");
        tr_int("feat", (long long) (host & 0x0fffffff));
        tr_end();
        /* feature groups that are switched independently */
        static const uint64_t grp_quick[] = {
                IMB_FEATURE_SHANI, IMB_FEATURE_AESNI | IMB_FEATURE_PCLMULQDQ,
                IMB_FEATURE_CMOV | IMB_FEATURE_SSE4_2, IMB_FEATURE_AVX | IMB_FEATURE_XSAVE | IMB_FEATURE_OSXSAVE,
                IMB_FEATURE_AVX2, IMB_FEATURE_BMI2, IMB_FEATURE_AVX512_SKX,
                IMB_FEATURE_VAES | IMB_FEATURE_VPCLMULQDQ, IMB_FEATURE_GFNI, IMB_FEATURE_AVX512_IFMA
        };
        static const uint64_t grp_full[] = {
                IMB_FEATURE_SHANI, IMB_FEATURE_AESNI, IMB_FEATURE_PCLMULQDQ, IMB_FEATURE_CMOV,
                IMB_FEATURE_SSE4_2, IMB_FEATURE_AVX, IMB_FEATURE_XSAVE | IMB_FEATURE_OSXSAVE,
                IMB_FEATURE_AVX2, IMB_FEATURE_BMI2, IMB_FEATURE_AVX512F | IMB_FEATURE_AVX512DQ,
                IMB_FEATURE_AVX512CD | IMB_FEATURE_AVX512BW | IMB_FEATURE_AVX512VL, IMB_FEATURE_VAES,
                IMB_FEATURE_VPCLMULQDQ, IMB_FEATURE_GFNI, IMB_FEATURE_AVX512_IFMA
        };
        const uint64_t *grp = full ? grp_full : grp_quick;
        const int ng = full ? 15 : 10;
        uint64_t all = 0;
        for (int i = 0; i < ng; i++)
                all |= grp[i];
        for (uint32_t s = 0; s < (1u << ng); s++) {
                uint64_t off = 0;
                for (int i = 0; i < ng; i++)
                        if (!((s >> i) & 1))
                                off |= grp[i];
                uint64_t mask = ~off;
                for (uint64_t flags = 0; flags < 4; flags++)
                        for (int initfn = 0; initfn < 4; initfn++)
                                sel(mask, flags, initfn);
        }
        tr_begin("SelEnd");
        tr_int("n", nsel);
        tr_end();
        fclose(hx_trace);
        fprintf(stderr, "{\"configs\":%ld}\n", nsel);
        return 0;
}
