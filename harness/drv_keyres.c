/* C13, last sentence: "The same holds after each key-preparation helper returns."  Every key-preparation helper is
 * called through the scrubbing / dumping trampoline; afterwards the register dump and the dead stack are searched
 * for the raw key and for the key material the helper derived (which legitimately lives in the caller's output
 * buffers only). */
#define _GNU_SOURCE
#include "hx.h"
#include <stdlib.h>
#include <string.h>
#include <unistd.h>

static IMB_MGR *M;
static const hx_variant *V;
static long ncalls;

static void
scan_and_log(const char *fn, int kl)
{
        const char *w1 = NULL, *w2 = NULL;
        long off = 0;
        int r_reg = sec_scan(hx_last_tr.vec, sizeof(hx_last_tr.vec), &w1, &off);
        r_reg += sec_scan_gpr(hx_last_tr.gpr, 16, r_reg ? NULL : &w1);
        int r_stk = hx_last_tr.stack_copy ? sec_scan(hx_last_tr.stack_copy, HX_STACK_SCAN, &w2, &off) : 0;
        ncalls++;
        tr_begin("KeyRes");
        tr_str("variant", V->name);
        tr_str("fn", fn);
        tr_int("kl", kl);
        tr_int("res_reg", r_reg);
        tr_int("res_stk", r_stk);
        tr_str("res_what", r_reg ? (w1 ? w1 : "?") : r_stk ? (w2 ? w2 : "?") : "");
        tr_int("abi", (long long) hx_last_tr.viol);
        tr_end();
}

int
drv_keyres(int argc, char **argv)
{
        const char *out = NULL, *variant = "sse_t1";
        uint64_t seed = 1;
        int reps = 6;
        for (int i = 0; i < argc; i++) {
                if (!strcmp(argv[i], "--out"))
                        out = argv[++i];
                else if (!strcmp(argv[i], "--variant"))
                        variant = argv[++i];
                else if (!strcmp(argv[i], "--seed"))
                        seed = strtoull(argv[++i], NULL, 0);
                else if (!strcmp(argv[i], "--reps"))
                        reps = atoi(argv[++i]);
        }
        hx_trace = out ? fopen(out, "w") : stdout;
        V = hx_variant_by_name(variant);
        M = V ? hx_mgr_new(V) : NULL;
        if (!M)
                return 2;
        hx_rng g;
        hx_seed(&g, seed);
        hx_dump_regs = 1;
        DECLARE_ALIGNED(static uint8_t o1[1024], 64);
        DECLARE_ALIGNED(static uint8_t o2[1024], 64);
        DECLARE_ALIGNED(static uint8_t o3[1024], 64);
        DECLARE_ALIGNED(static struct gcm_key_data gk, 64);
        for (int it = 0; it < reps; it++) {
                uint8_t key[160];
                hx_fill(&g, key, sizeof(key));
#define CALL(name, kl_, sz1, sz2, sz3, ...)                                                        \
        do {                                                                                       \
                sec_reset();                                                                       \
                sec_add(key, (size_t) (kl_), "raw key");                                           \
                hx_call(__VA_ARGS__);                                                              \
                if (sz1)                                                                           \
                        sec_add(o1, (size_t) (sz1), "derived key material (output 1)");            \
                if (sz2)                                                                           \
                        sec_add(o2, (size_t) (sz2), "derived key material (output 2)");            \
                if (sz3)                                                                           \
                        sec_add(o3, (size_t) (sz3), "derived key material (output 3)");            \
                scan_and_log(name, kl_);                                                           \
        } while (0)
                CALL("keyexp_128", 16, 176, 176, 0, (void *) M->keyexp_128, 3, (uint64_t) key, (uint64_t) o1, (uint64_t) o2);
                CALL("keyexp_192", 24, 208, 208, 0, (void *) M->keyexp_192, 3, (uint64_t) key, (uint64_t) o1, (uint64_t) o2);
                CALL("keyexp_256", 32, 240, 240, 0, (void *) M->keyexp_256, 3, (uint64_t) key, (uint64_t) o1, (uint64_t) o2);
                CALL("sm4_keyexp", 16, 128, 128, 0, (void *) M->sm4_keyexp, 3, (uint64_t) key, (uint64_t) o1, (uint64_t) o2);
                CALL("des_key_sched", 8, 128, 0, 0, (void *) M->des_key_sched, 2, (uint64_t) o1, (uint64_t) key);
                CALL("xcbc_keyexp", 16, 176, 16, 16, (void *) M->xcbc_keyexp, 4, (uint64_t) key, (uint64_t) o1, (uint64_t) o2, (uint64_t) o3);
                {
                        DECLARE_ALIGNED(uint8_t ek[240], 16);
                        DECLARE_ALIGNED(uint8_t dk[240], 16);
                        IMB_AES_KEYEXP_128(M, key, ek, dk);
                        sec_reset();
                        sec_add(key, 16, "raw key");
                        sec_add(ek, 176, "expanded key");
                        hx_call((void *) M->cmac_subkey_gen_128, 3, (uint64_t) ek, (uint64_t) o1, (uint64_t) o2);
                        sec_add(o1, 16, "CMAC sub-key 1");
                        sec_add(o2, 16, "CMAC sub-key 2");
                        scan_and_log("cmac_subkey_gen_128", 16);
                        IMB_AES_KEYEXP_256(M, key, ek, dk);
                        sec_reset();
                        sec_add(key, 32, "raw key");
                        sec_add(ek, 240, "expanded key");
                        hx_call((void *) M->cmac_subkey_gen_256, 3, (uint64_t) ek, (uint64_t) o1, (uint64_t) o2);
                        sec_add(o1, 16, "CMAC sub-key 1");
                        sec_add(o2, 16, "CMAC sub-key 2");
                        scan_and_log("cmac_subkey_gen_256", 32);
                }
                {
                        static const int kls[3] = { 16, 24, 32 };
                        void *pre[3] = { (void *) M->gcm128_pre, (void *) M->gcm192_pre, (void *) M->gcm256_pre };
                        for (int k = 0; k < 3; k++) {
                                sec_reset();
                                sec_add(key, (size_t) kls[k], "raw key");
                                hx_call(pre[k], 2, (uint64_t) key, (uint64_t) &gk);
                                sec_add(&gk, sizeof(gk), "GCM key data (round keys, hash key powers)");
                                scan_and_log(k == 0 ? "gcm128_pre" : k == 1 ? "gcm192_pre" : "gcm256_pre", kls[k]);
                        }
                        sec_reset();
                        sec_add(key, 16, "GHASH key");
                        hx_call((void *) M->ghash_pre, 2, (uint64_t) key, (uint64_t) &gk);
                        sec_add(&gk, sizeof(gk), "GHASH key data");
                        scan_and_log("ghash_pre", 16);
                }
                {
                        /* HMAC ipad/opad for key lengths below, at and above the block size */
                        static const struct { int alg; int blk; const char *nm; } hm[] = {
                                { IMB_AUTH_HMAC_SHA_1, 64, "hmac_ipad_opad_sha1" }, { IMB_AUTH_HMAC_SHA_224, 64, "hmac_ipad_opad_sha224" },
                                { IMB_AUTH_HMAC_SHA_256, 64, "hmac_ipad_opad_sha256" }, { IMB_AUTH_HMAC_SHA_384, 128, "hmac_ipad_opad_sha384" },
                                { IMB_AUTH_HMAC_SHA_512, 128, "hmac_ipad_opad_sha512" }, { IMB_AUTH_MD5, 64, "hmac_ipad_opad_md5" },
                        };
                        for (unsigned h = 0; h < sizeof(hm) / sizeof(hm[0]); h++) {
                                const int kls[3] = { 20, hm[h].blk, hm[h].alg == IMB_AUTH_MD5 ? 48 : hm[h].blk + 17 };
                                const int kl = kls[it % 3];
                                sec_reset();
                                sec_add(key, (size_t) kl, "raw authentication key");
                                hx_call((void *) imb_hmac_ipad_opad, 6, (uint64_t) M, (uint64_t) hm[h].alg, (uint64_t) key, (uint64_t) kl,
                                        (uint64_t) o1, (uint64_t) o2);
                                sec_add(o1, 64, "HMAC ipad digest");
                                sec_add(o2, 64, "HMAC opad digest");
                                scan_and_log(hm[h].nm, kl);
                        }
                }
                {
                        DECLARE_ALIGNED(static uint8_t ks[4096], 64);
                        sec_reset();
                        sec_add(key, 16, "raw key");
                        hx_call((void *) M->snow3g_init_key_sched, 2, (uint64_t) key, (uint64_t) ks);
                        scan_and_log("snow3g_init_key_sched", 16);
                        sec_reset();
                        sec_add(key, 16, "raw key");
                        hx_call((void *) M->kasumi_init_f8_key_sched, 2, (uint64_t) key, (uint64_t) ks);
                        sec_add(ks, IMB_KASUMI_KEY_SCHED_SIZE(M), "KASUMI key schedule");
                        scan_and_log("kasumi_init_f8_key_sched", 16);
                        sec_reset();
                        sec_add(key, 16, "raw key");
                        hx_call((void *) M->kasumi_init_f9_key_sched, 2, (uint64_t) key, (uint64_t) ks);
                        sec_add(ks, IMB_KASUMI_KEY_SCHED_SIZE(M), "KASUMI key schedule");
                        scan_and_log("kasumi_init_f9_key_sched", 16);
                }

                /* ---- direct cipher / authentication calls (C13: "once an API call returns and no job remains in flight") ---- */
                {
                        DECLARE_ALIGNED(static uint8_t ks[4096], 64);
                        DECLARE_ALIGNED(static uint8_t text[512], 64);
                        DECLARE_ALIGNED(static uint8_t outb[512], 64);
                        DECLARE_ALIGNED(uint8_t iv[32], 16);
                        uint32_t tag32 = 0;
                        static const int tls[] = { 1, 15, 16, 33, 64, 100, 255, 256 };
                        const int tl = tls[it % 8];
                        hx_fill(&g, text, sizeof(text));
                        hx_fill(&g, iv, sizeof(iv));
                        /* ZUC-EEA3 / EIA3, one buffer: raw key */
                        sec_reset();
                        sec_add(key, 16, "raw ZUC key");
                        sec_add(text, (size_t) tl, "plaintext");
                        hx_call((void *) M->eea3_1_buffer, 5, (uint64_t) key, (uint64_t) iv, (uint64_t) text, (uint64_t) outb, (uint64_t) tl);
                        scan_and_log("direct_zuc_eea3_1", tl);
                        sec_reset();
                        sec_add(key, 16, "raw ZUC key");
                        hx_call((void *) M->eia3_1_buffer, 5, (uint64_t) key, (uint64_t) iv, (uint64_t) text, (uint64_t) (tl * 8), (uint64_t) &tag32);
                        scan_and_log("direct_zuc_eia3_1", tl);
                        /* SNOW3G F8 / F9, one buffer: key schedule */
                        IMB_SNOW3G_INIT_KEY_SCHED(M, key, (snow3g_key_schedule_t *) ks);
                        sec_reset();
                        sec_add(key, 16, "raw SNOW3G key");
                        sec_add(text, (size_t) tl, "plaintext");
                        hx_call((void *) M->snow3g_f8_1_buffer, 5, (uint64_t) ks, (uint64_t) iv, (uint64_t) text, (uint64_t) outb, (uint64_t) tl);
                        scan_and_log("direct_snow3g_f8_1", tl);
                        sec_reset();
                        sec_add(key, 16, "raw SNOW3G key");
                        hx_call((void *) M->snow3g_f9_1_buffer, 5, (uint64_t) ks, (uint64_t) iv, (uint64_t) text, (uint64_t) (tl * 8), (uint64_t) &tag32);
                        scan_and_log("direct_snow3g_f9_1", tl);
                        /* KASUMI F8 / F9 */
                        IMB_KASUMI_INIT_F8_KEY_SCHED(M, key, (kasumi_key_sched_t *) ks);
                        sec_reset();
                        sec_add(key, 16, "raw KASUMI key");
                        sec_add(ks, IMB_KASUMI_KEY_SCHED_SIZE(M), "KASUMI key schedule");
                        sec_add(text, (size_t) tl, "plaintext");
                        {
                                uint64_t iv64;
                                memcpy(&iv64, iv, 8);
                                hx_call((void *) M->f8_1_buffer, 5, (uint64_t) ks, iv64, (uint64_t) text, (uint64_t) outb, (uint64_t) tl);
                        }
                        scan_and_log("direct_kasumi_f8_1", tl);
                        IMB_KASUMI_INIT_F9_KEY_SCHED(M, key, (kasumi_key_sched_t *) ks);
                        sec_reset();
                        sec_add(key, 16, "raw KASUMI key");
                        sec_add(ks, IMB_KASUMI_KEY_SCHED_SIZE(M), "KASUMI key schedule");
                        hx_call((void *) M->f9_1_buffer, 4, (uint64_t) ks, (uint64_t) text, (uint64_t) tl, (uint64_t) &tag32);
                        scan_and_log("direct_kasumi_f9_1", tl);
                        /* GHASH one-shot: hash key tables */
                        IMB_GHASH_PRE(M, key, &gk);
                        sec_reset();
                        sec_add(key, 16, "GHASH key");
                        sec_add(&gk, sizeof(gk), "GHASH key data");
                        hx_call((void *) M->ghash, 5, (uint64_t) &gk, (uint64_t) text, (uint64_t) tl, (uint64_t) outb, (uint64_t) 16);
                        scan_and_log("direct_ghash", tl);
                        /* one-block CFB: round keys, plaintext */
                        {
                                DECLARE_ALIGNED(uint8_t ek[240], 16);
                                DECLARE_ALIGNED(uint8_t dk[240], 16);
                                IMB_AES_KEYEXP_128(M, key, ek, dk);
                                sec_reset();
                                sec_add(key, 16, "raw key");
                                sec_add(ek, 176, "expanded key");
                                sec_add(text, 16, "plaintext");
                                hx_call((void *) M->aes128_cfb_one, 5, (uint64_t) outb, (uint64_t) text, (uint64_t) iv, (uint64_t) ek, (uint64_t) (1 + tl % 16));
                                scan_and_log("direct_cfb128_one", 1 + tl % 16);
                                IMB_AES_KEYEXP_256(M, key, ek, dk);
                                sec_reset();
                                sec_add(key, 32, "raw key");
                                sec_add(ek, 240, "expanded key");
                                sec_add(text, 16, "plaintext");
                                hx_call((void *) M->aes256_cfb_one, 5, (uint64_t) outb, (uint64_t) text, (uint64_t) iv, (uint64_t) ek, (uint64_t) (1 + tl % 16));
                                scan_and_log("direct_cfb256_one", 1 + tl % 16);
                        }
                }
        }
        tr_begin("KeyResEnd");
        tr_int("n", ncalls);
        tr_end();
        fclose(hx_trace);
        fprintf(stderr, "{\"calls\":%ld}\n", ncalls);
        return 0;
}
