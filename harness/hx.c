#define _GNU_SOURCE
#include "hx.h"
#include <stdlib.h>
#include <string.h>
#include <stdarg.h>
#include <signal.h>
#include <unistd.h>
#include <sys/mman.h>
#include <pthread.h>

static pthread_mutex_t ga_lock = PTHREAD_MUTEX_INITIALIZER;
__thread int ga_tl_idx[64];
__thread int ga_tl_n;

/* ===================================================================== rng */
void
hx_seed(hx_rng *r, uint64_t seed)
{
        r->s = seed * 0x9E3779B97F4A7C15ULL + 0xD1B54A32D192ED03ULL;
}
uint64_t
hx_rand(hx_rng *r)
{
        uint64_t z = (r->s += 0x9E3779B97F4A7C15ULL);
        z = (z ^ (z >> 30)) * 0xBF58476D1CE4E5B9ULL;
        z = (z ^ (z >> 27)) * 0x94D049BB133111EBULL;
        return z ^ (z >> 31);
}
uint32_t
hx_below(hx_rng *r, uint32_t n)
{
        return (uint32_t) (hx_rand(r) % n);
}
void
hx_fill(hx_rng *r, void *p, size_t n)
{
        uint8_t *b = p;
        while (n >= 8) {
                uint64_t v = hx_rand(r);
                memcpy(b, &v, 8);
                b += 8;
                n -= 8;
        }
        if (n) {
                uint64_t v = hx_rand(r);
                memcpy(b, &v, n);
        }
}
uint64_t
hx_mix(uint64_t a, uint64_t b)
{
        hx_rng r;
        hx_seed(&r, a ^ (b * 0xA24BAED4963EE407ULL));
        return hx_rand(&r);
}

/* ===================================================================== arena */
#define GA_BASE ((uint8_t *) 0x600000000000ULL)
#define GA_SIZE (64ULL << 30)
#define PG 4096UL
static uint8_t *ga_base;
static size_t ga_cur; /* offset of next guard page */
static ga_obj *ga_objs;
static int ga_n, ga_cap;

void
ga_init(void)
{
        if (ga_base)
                return;
        void *p = mmap(GA_BASE, GA_SIZE, PROT_NONE,
                       MAP_PRIVATE | MAP_ANONYMOUS | MAP_NORESERVE | MAP_FIXED_NOREPLACE, -1, 0);
        if (p == MAP_FAILED) {
                p = mmap(NULL, GA_SIZE, PROT_NONE, MAP_PRIVATE | MAP_ANONYMOUS | MAP_NORESERVE, -1, 0);
                if (p == MAP_FAILED) {
                        perror("ga mmap");
                        exit(2);
                }
        }
        ga_base = p;
        ga_cur = 0;
}

static void *ga_alloc_locked(size_t size, size_t align, int placement, const char *name, int owner);

void *
ga_alloc(size_t size, size_t align, int placement, const char *name, int owner)
{
        pthread_mutex_lock(&ga_lock);
        void *p = ga_alloc_locked(size, align, placement, name, owner);
        pthread_mutex_unlock(&ga_lock);
        return p;
}

static void *
ga_alloc_locked(size_t size, size_t align, int placement, const char *name, int owner)
{
        if (!ga_base)
                ga_init();
        size_t need = size;
        if (placement == GA_SLACK)
                need = size + 128;
        size_t np = (need + PG - 1) / PG;
        if (np == 0)
                np = 1;
        uint8_t *d0 = ga_base + ga_cur + PG;
        if (ga_cur + (np + 2) * PG > GA_SIZE) {
                fprintf(stderr, "ga: out of arena\n");
                exit(2);
        }
        if (mprotect(d0, np * PG, PROT_READ | PROT_WRITE) != 0) {
                perror("ga mprotect");
                exit(2);
        }
        memset(d0, 0xA5, np * PG);
        uint8_t *ptr;
        if (align == 0)
                align = 1;
        if (placement == GA_START)
                ptr = d0;
        else if (placement == GA_SLACK)
                ptr = d0 + 64;
        else {
                ptr = d0 + np * PG - size;
                ptr = (uint8_t *) ((uintptr_t) ptr & ~(uintptr_t) (align - 1));
        }
        if (ga_n == ga_cap) {
                ga_cap = ga_cap ? ga_cap * 2 : 1024;
                ga_objs = realloc(ga_objs, ga_cap * sizeof(ga_obj));
        }
        if (ga_tl_n < 64)
                ga_tl_idx[ga_tl_n++] = ga_n;
        ga_objs[ga_n++] = (ga_obj){ d0, np, ptr, size, name, owner, 0 };
        ga_cur += (np + 1) * PG;
        return ptr;
}

size_t
ga_mark(void)
{
        return ((size_t) ga_n << 40) | (ga_cur / PG);
}

void
ga_release_to(size_t mark)
{
        size_t n = mark >> 40, cur = (mark & ((1ULL << 40) - 1)) * PG;
        if (cur < ga_cur) {
                mprotect(ga_base + cur + PG, ga_cur - cur, PROT_NONE);
                madvise(ga_base + cur + PG, ga_cur - cur, MADV_DONTNEED);
        }
        ga_cur = cur;
        ga_n = (int) n;
}

void
ga_reset(void)
{
        ga_release_to(0);
}

int
ga_count(void)
{
        return ga_n;
}
const ga_obj *
ga_get(int i)
{
        return &ga_objs[i];
}

const ga_obj *
ga_find(const void *addr)
{
        const uint8_t *a = addr;
        if (!ga_base || a < ga_base || a >= ga_base + GA_SIZE)
                return NULL;
        /* binary search over objects (sorted by page0) */
        int lo = 0, hi = ga_n - 1, best = -1;
        while (lo <= hi) {
                int mid = (lo + hi) / 2;
                if (ga_objs[mid].page0 - PG <= a) {
                        best = mid;
                        lo = mid + 1;
                } else
                        hi = mid - 1;
        }
        if (best < 0)
                return NULL;
        /* a lies in [page0-PG, next.page0-PG): either leading guard, data, or trailing guard.
         * a trailing-guard hit belongs to this object; a leading-guard hit (a < page0) belongs to
         * this object as an under-run only if it is start-flush, else to the previous object */
        if (a < ga_objs[best].page0 && best > 0) {
                const ga_obj *p = &ga_objs[best - 1];
                const ga_obj *c = &ga_objs[best];
                /* distance to end of previous object vs start of this */
                size_t d_prev = (size_t) (a - (p->ptr + p->size));
                size_t d_cur = (size_t) (c->ptr - a);
                return d_prev <= d_cur ? p : c;
        }
        return &ga_objs[best];
}

static int
ga_check_range(int first, int last, const ga_obj **bad);

int
ga_drop(int first, int last)
{
        pthread_mutex_lock(&ga_lock);
        int r = ga_check_range(first, last, NULL);
        for (int i = first; i < last && i < ga_n; i++) {
                ga_obj *o = &ga_objs[i];
                if (o->dropped)
                        continue;
                mprotect(o->page0, o->npages * PG, PROT_NONE);
                madvise(o->page0, o->npages * PG, MADV_DONTNEED);
                o->dropped = 1;
        }
        pthread_mutex_unlock(&ga_lock);
        return r;
}

int
ga_drop_list(const int *idx, int n)
{
        int r = 0;
        pthread_mutex_lock(&ga_lock);
        for (int k = 0; k < n; k++) {
                int i = idx[k];
                if (i < 0 || i >= ga_n || ga_objs[i].dropped)
                        continue;
                r |= ga_check_range(i, i + 1, NULL);
                ga_obj *o = &ga_objs[i];
                mprotect(o->page0, o->npages * PG, PROT_NONE);
                madvise(o->page0, o->npages * PG, MADV_DONTNEED);
                o->dropped = 1;
        }
        pthread_mutex_unlock(&ga_lock);
        return r;
}

int
ga_check_canaries(const ga_obj **bad)
{
        return ga_check_range(0, ga_n, bad);
}

static int
ga_check_range(int first, int last, const ga_obj **bad)
{
        for (int i = first; i < last && i < ga_n; i++) {
                const ga_obj *o = &ga_objs[i];
                if (o->dropped)
                        continue;
                const uint8_t *p = o->page0, *e = o->page0 + o->npages * PG;
                for (; p < o->ptr; p++)
                        if (*p != 0xA5)
                                goto fail;
                for (p = o->ptr + o->size; p < e; p++)
                        if (*p != 0xA5)
                                goto fail;
                continue;
        fail:
                if (bad)
                        *bad = o;
                return 1;
        }
        return 0;
}

/* ===================================================================== calls */
int hx_abi_viol_total;
uint64_t hx_abi_viol_bits;
uint64_t hx_calls_total;
int hx_dump_regs;
struct hx_tr hx_last_tr;
sigjmp_buf hx_fault_jmp;
volatile int hx_in_call;
volatile void *hx_fault_addr;
static uint8_t hx_stack_copy[HX_STACK_SCAN];

uint64_t
hx_call(void *fn, int nargs, ...)
{
        struct hx_tr *t = &hx_last_tr;
        va_list ap;
        va_start(ap, nargs);
        for (int i = 0; i < 6; i++)
                t->a[i] = i < nargs ? va_arg(ap, uint64_t) : 0;
        va_end(ap);
        t->fn = fn;
        t->flags_in = hx_dump_regs ? 3 : 0;
        t->stack_copy = hx_dump_regs ? hx_stack_copy : NULL;
        t->viol = 0;
        hx_in_call = 1;
        hx_tramp(t);
        hx_in_call = 0;
        hx_calls_total++;
        if (t->viol) {
                hx_abi_viol_total++;
                hx_abi_viol_bits |= t->viol;
        }
        return t->ret;
}

static void
hx_sig(int sig, siginfo_t *si, void *uc)
{
        (void) uc;
        if (hx_in_call) {
                hx_fault_addr = si->si_addr;
                hx_in_call = 0;
                siglongjmp(hx_fault_jmp, sig);
        }
        /* fault in the harness itself: machinery error */
        static const char msg[] = "hx: fatal signal outside a library call\n";
        (void) !write(2, msg, sizeof(msg) - 1);
        _exit(3);
}

static uint8_t hx_altstack[1 << 16];

void
hx_install_handlers(void)
{
        stack_t ss = { .ss_sp = hx_altstack, .ss_size = sizeof(hx_altstack), .ss_flags = 0 };
        sigaltstack(&ss, NULL);
        struct sigaction sa;
        memset(&sa, 0, sizeof(sa));
        sa.sa_sigaction = hx_sig;
        sa.sa_flags = SA_SIGINFO | SA_ONSTACK | SA_NODEFER;
        sigaction(SIGSEGV, &sa, NULL);
        sigaction(SIGBUS, &sa, NULL);
        sigaction(SIGILL, &sa, NULL);
        sigaction(SIGFPE, &sa, NULL);
        sigaction(SIGALRM, &sa, NULL);
        sigaction(SIGABRT, &sa, NULL);
}

/* ===================================================================== variants */
const hx_variant hx_variants[] = {
        { "sse_t1", 0, IMB_FLAG_SHANI_OFF, 1 },
        { "sse_t2", 0, IMB_FLAG_GFNI_OFF, 2 },
        { "sse_t3", 0, 0, 3 },
        { "avx2_t1", 1, IMB_FLAG_SHANI_OFF, 1 },
        { "avx2_t2", 1, 0, 2 },
        { "avx512_t1", 2, IMB_FLAG_SHANI_OFF, 1 },
        { "avx512_t2", 2, 0, 2 },
        /* additional flag combinations mapping onto the same code (C08) */
        { "avx2_t1g", 1, IMB_FLAG_GFNI_OFF, 1 },
        { "avx512_t1g", 2, IMB_FLAG_GFNI_OFF, 1 },
        { "sse_t1b", 0, IMB_FLAG_SHANI_OFF | IMB_FLAG_GFNI_OFF, 1 },
};
const int hx_nvariants = 7;

const hx_variant *
hx_variant_by_name(const char *name)
{
        for (unsigned i = 0; i < sizeof(hx_variants) / sizeof(hx_variants[0]); i++)
                if (strcmp(hx_variants[i].name, name) == 0)
                        return &hx_variants[i];
        return NULL;
}

void
hx_mgr_init(IMB_MGR *m, const hx_variant *v)
{
        switch (v->arch) {
        case 0:
                init_mb_mgr_sse(m);
                break;
        case 1:
                init_mb_mgr_avx2(m);
                break;
        default:
                init_mb_mgr_avx512(m);
                break;
        }
}

IMB_MGR *
hx_mgr_new(const hx_variant *v)
{
        IMB_MGR *m = alloc_mb_mgr(v->flags);
        if (!m)
                return NULL;
        hx_mgr_init(m, v);
        if (m->imb_errno != 0 || m->submit_job == NULL) {
                free_mb_mgr(m);
                return NULL;
        }
        return m;
}

/* ===================================================================== trace writer */
FILE *hx_trace;
static int tr_first;
void
tr_begin(const char *ev)
{
        fprintf(hx_trace, "{\"e\":\"%s\"", ev);
        tr_first = 0;
}
void
tr_int(const char *k, long long v)
{
        fprintf(hx_trace, ",\"%s\":%lld", k, v);
}
void
tr_str(const char *k, const char *v)
{
        fprintf(hx_trace, ",\"%s\":\"%s\"", k, v);
}
void
tr_ints(const char *k, const int *v, int n)
{
        fprintf(hx_trace, ",\"%s\":[", k);
        for (int i = 0; i < n; i++)
                fprintf(hx_trace, i ? ",%d" : "%d", v[i]);
        fputc(']', hx_trace);
}
void
tr_end(void)
{
        fputs("}\n", hx_trace);
}
