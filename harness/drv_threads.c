/* C17 (threads): N threads, each with its own manager (same or different variants), run their own
 * deterministic job histories concurrently; every thread's sequence of (returned job, status, output
 * digest) and its final error field must equal what the same history gives when run alone. */
#define _GNU_SOURCE
#include "hx.h"
#include <stdlib.h>
#include <string.h>
#include <pthread.h>

typedef struct {
        const hx_variant *v;
        uint64_t seed;
        int nops;
        uint64_t digest;   /* chain over all returns */
        long nret, njobs;
        int errfield_bad;  /* times the per-manager error field was not what the call produced */
        int init_bad;      /* the manager could not be allocated / initialised as the variant asked for */
        int idx;
} tctx;

static pthread_barrier_t bar;
static int use_barrier;

static uint64_t
mixd(uint64_t h, uint64_t v)
{
        h ^= v + 0x9e3779b97f4a7c15ULL + (h << 6) + (h >> 2);
        return h;
}

static uint64_t
job_dig(const IMB_JOB *r, const hx_job *j)
{
        uint64_t h = 1469598103934665603ULL ^ (uint64_t) r->status;
        size_t nb = j->dst_size;
        if (r->status == IMB_STATUS_COMPLETED) {
                if (j->dst && nb) {
                        size_t full = j->sp.bitadj ? nb - 1 : nb;
                        for (size_t i = 0; i < full; i++)
                                h = (h ^ j->dst[i]) * 1099511628211ULL;
                        if (full < nb)
                                h = (h ^ (uint8_t) (j->dst[nb - 1] & (0xff << j->sp.bitadj))) * 1099511628211ULL;
                }
                for (uint32_t i = 0; j->tag && i < hx_tag_cmp_len(&j->sp); i++)
                        h = (h ^ j->tag[i]) * 1099511628211ULL;
        }
        return h;
}

static void *
worker(void *arg)
{
        tctx *t = arg;
        IMB_MGR *m = hx_mgr_new(t->v);
        t->init_bad = !m || m->imb_errno != 0 || !m->get_next_job || (int) m->used_arch_type != t->v->exp_type;
        if (t->init_bad) {
                /* allocation / initialisation of this thread's manager gave another result than alone */
                t->digest = 0xbadULL;
                t->nret = t->njobs = 0;
                t->errfield_bad = 0;
                if (use_barrier)
                        pthread_barrier_wait(&bar);
                return NULL;
        }
        hx_job *by_slot[IMB_MAX_JOBS];
        memset(by_slot, 0, sizeof(by_slot));
        hx_rng g, r;
        hx_seed(&g, t->seed);
        hx_seed(&r, t->seed ^ 0x99);
        const char *ws[8];
        for (int i = 0; i < 8; i++)
                ws[i] = hx_kinds[hx_below(&g, (uint32_t) hx_nkinds)];
        t->digest = 0;
        t->nret = t->njobs = 0;
        t->errfield_bad = 0;
        if (use_barrier)
                pthread_barrier_wait(&bar);
        int id = 0;
        for (int op = 0; op < t->nops; op++) {
                uint32_t c = hx_below(&g, 100);
                IMB_JOB *ret = NULL;
                int exp_err = 0;
                if (c < 60) {
                        hx_spec sp;
                        hx_spec_from_kind(ws[hx_below(&g, 8)], &r, &sp);
                        sp.placement = GA_SLACK;
                        hx_job *j = calloc(1, sizeof(*j));
                        hx_job_build(m, &sp, id++, j);
                        IMB_JOB *slot = IMB_GET_NEXT_JOB(m);
                        hx_job_to_slot(j, slot);
                        if (hx_below(&g, 15) == 0) {
                                slot->hash_alg = (IMB_HASH_ALG) 99; /* a failing call on this manager */
                                exp_err = IMB_ERR_HASH_ALGO;
                        }
                        by_slot[slot - m->jobs] = j;
                        t->njobs++;
                        ret = IMB_SUBMIT_JOB(m);
                } else if (c < 80)
                        ret = IMB_FLUSH_JOB(m);
                else
                        ret = IMB_GET_COMPLETED_JOB(m);
                if (m->imb_errno != exp_err)
                        t->errfield_bad++;
                if (ret) {
                        hx_job *j = by_slot[ret - m->jobs];
                        by_slot[ret - m->jobs] = NULL;
                        t->digest = mixd(t->digest, (uint64_t) j->id);
                        t->digest = mixd(t->digest, job_dig(ret, j));
                        t->nret++;
                        ga_drop_list(j->gobj, j->ngobj);
                        hx_job_free(j);
                        free(j);
                }
        }
        IMB_JOB *ret;
        while ((ret = IMB_FLUSH_JOB(m)) != NULL) {
                hx_job *j = by_slot[ret - m->jobs];
                by_slot[ret - m->jobs] = NULL;
                t->digest = mixd(t->digest, (uint64_t) j->id);
                t->digest = mixd(t->digest, job_dig(ret, j));
                t->nret++;
                ga_drop_list(j->gobj, j->ngobj);
                hx_job_free(j);
                free(j);
        }
        free_mb_mgr(m);
        return NULL;
}


/* ---- directed mode: for every catalogue kind, all threads run that kind at the same time in a tight
 * loop on pre-built jobs (no arena calls in the loop), so that any state two managers share while a
 * call is in progress (a static scratch buffer, a table patched at run time) is exercised with
 * overlapping calls.  Every run of a job must give the digest its first run alone gave. ---- */
#define HJ 12
typedef struct {
        const hx_variant *v;
        const char *kind;
        uint64_t seed;
        int rounds;
        int idx, nthreads;
        long mism_solo, mism_conc, runs, built;
        int first_bad_job, first_bad_round;
} hctx;

static uint64_t
hammer_once(IMB_MGR *m, hx_job *js, int n, uint64_t *dig, int set, long *mism, int *fb, int round)
{
        uint64_t nret = 0;
        hx_job *by_slot[IMB_MAX_JOBS];
        for (int i = 0; i < n; i++) {
                memcpy(js[i].src, js[i].src_snapshot, js[i].src_size);
                if (!js[i].sp.inplace && js[i].dst && js[i].dst_pre)
                        memcpy(js[i].dst, js[i].dst_pre, js[i].dst_size);
                memcpy(js[i].tag, js[i].tag_pre, js[i].sp.taglen);
        }
        for (int i = 0; i <= n; i++) {
                IMB_JOB *ret;
                if (i < n) {
                        IMB_JOB *slot = IMB_GET_NEXT_JOB(m);
                        hx_job_to_slot(&js[i], slot);
                        by_slot[slot - m->jobs] = &js[i];
                        ret = IMB_SUBMIT_JOB(m);
                } else
                        ret = IMB_FLUSH_JOB(m);
                while (ret) {
                        hx_job *j = by_slot[ret - m->jobs];
                        uint64_t h = job_dig(ret, j);
                        int k = (int) (j - js);
                        if (set)
                                dig[k] = h;
                        else if (dig[k] != h) {
                                if (*mism == 0)
                                        *fb = k * 1000 + round;
                                (*mism)++;
                        }
                        nret++;
                        ret = i < n ? IMB_GET_COMPLETED_JOB(m) : IMB_FLUSH_JOB(m);
                }
        }
        return nret;
}

static void *
hammer_worker(void *arg)
{
        hctx *t = arg;
        IMB_MGR *m = hx_mgr_new(t->v);
        if (!m || m->imb_errno != 0 || !m->get_next_job || (int) m->used_arch_type != t->v->exp_type) {
                /* the manager of this thread did not come up as it does alone: counted as a concurrent mismatch */
                t->built = 0;
                t->mism_solo = 0;
                t->mism_conc = 1;
                t->runs = 0;
                t->first_bad_job = -2;
                t->first_bad_round = -2;
                pthread_barrier_wait(&bar);
                for (int turn = 0; turn < t->nthreads; turn++)
                        pthread_barrier_wait(&bar);
                return NULL;
        }
        hx_job js[HJ];
        uint64_t dig[HJ];
        hx_rng r;
        hx_seed(&r, t->seed);
        int n = 0;
        memset(js, 0, sizeof(js));
        for (int i = 0; i < HJ; i++) {
                hx_spec sp;
                if (!hx_spec_from_kind(t->kind, &r, &sp))
                        break;
                sp.placement = GA_SLACK;
                if (hx_job_build(m, &sp, i, &js[n]) == 0)
                        n++;
        }
        t->built = n;
        t->mism_solo = t->mism_conc = t->runs = 0;
        int fb = -1;
        /* alone (the other threads are still building or waiting): first run defines the digests,
         * second run checks that a re-run is reproducible at all */
        pthread_barrier_wait(&bar);
        for (int turn = 0; turn < t->nthreads; turn++) {
                if (turn == t->idx) {
                        hammer_once(m, js, n, dig, 1, &t->mism_solo, &fb, -1);
                        hammer_once(m, js, n, dig, 0, &t->mism_solo, &fb, -1);
                }
                pthread_barrier_wait(&bar);
        }
        /* all together */
        fb = -1;
        for (int rd = 0; rd < t->rounds; rd++)
                t->runs += (long) hammer_once(m, js, n, dig, 0, &t->mism_conc, &fb, rd);
        t->first_bad_job = fb < 0 ? -1 : fb / 1000;
        t->first_bad_round = fb < 0 ? -1 : fb % 1000;
        for (int i = 0; i < n; i++) {
                ga_drop_list(js[i].gobj, js[i].ngobj);
                hx_job_free(&js[i]);
        }
        free_mb_mgr(m);
        return NULL;
}

static int
drv_hammer(int nthreads, int rounds, uint64_t seed, const char *only)
{
        long total = 0;
        if (nthreads > 32)
                nthreads = 32;
        for (int ki = 0; ki < hx_nkinds; ki++) {
                if (only && strcmp(only, hx_kinds[ki]) != 0)
                        continue;
                hctx hc[32];
                pthread_t th[32];
                pthread_barrier_init(&bar, NULL, (unsigned) nthreads);
                for (int k = 0; k < nthreads; k++) {
                        hc[k].v = &hx_variants[(k + ki) % hx_nvariants];
                        hc[k].kind = hx_kinds[ki];
                        hc[k].seed = hx_mix(seed, (uint64_t) (ki * 64 + k));
                        hc[k].rounds = rounds;
                        hc[k].idx = k;
                        hc[k].nthreads = nthreads;
                        pthread_create(&th[k], NULL, hammer_worker, &hc[k]);
                }
                for (int k = 0; k < nthreads; k++)
                        pthread_join(th[k], NULL);
                pthread_barrier_destroy(&bar);
                ga_reset();
                for (int k = 0; k < nthreads; k++) {
                        tr_begin("Hammer");
                        tr_str("kind", hc[k].kind);
                        tr_int("t", k);
                        tr_str("variant", hc[k].v->name);
                        tr_int("jobs", hc[k].built);
                        tr_int("runs", hc[k].runs);
                        tr_int("mism_solo", hc[k].mism_solo);
                        tr_int("mism_conc", hc[k].mism_conc);
                        tr_int("bad_job", hc[k].first_bad_job);
                        tr_int("bad_round", hc[k].first_bad_round);
                        tr_end();
                        total += hc[k].runs;
                }
        }
        fclose(hx_trace);
        fprintf(stderr, "{\"threads\":%d,\"rounds\":%d,\"jobs\":%ld,\"kinds\":%d}\n", nthreads, rounds, total, only ? 1 : hx_nkinds);
        return 0;
}

int
drv_threads(int argc, char **argv)
{
        const char *out = NULL;
        int nthreads = 12, nops = 3000, rounds = 3, hammer = 0;
        const char *only = NULL;
        uint64_t seed = 1;
        for (int i = 0; i < argc; i++) {
                if (!strcmp(argv[i], "--out"))
                        out = argv[++i];
                else if (!strcmp(argv[i], "--threads"))
                        nthreads = atoi(argv[++i]);
                else if (!strcmp(argv[i], "--ops"))
                        nops = atoi(argv[++i]);
                else if (!strcmp(argv[i], "--rounds"))
                        rounds = atoi(argv[++i]);
                else if (!strcmp(argv[i], "--seed"))
                        seed = strtoull(argv[++i], NULL, 0);
                else if (!strcmp(argv[i], "--hammer"))
                        hammer = 1;
                else if (!strcmp(argv[i], "--kind"))
                        only = argv[++i];
        }
        if (nthreads > 32)
                nthreads = 32;
        hx_trace = out ? fopen(out, "w") : stdout;
        if (hammer)
                return drv_hammer(nthreads, rounds, seed, only);
        tctx solo[32], conc[32];
        long total = 0;
        for (int rd = 0; rd < rounds; rd++) {
                for (int k = 0; k < nthreads; k++) {
                        solo[k].v = &hx_variants[(k + rd) % hx_nvariants];
                        solo[k].seed = hx_mix(seed, (uint64_t) (rd * 100 + k));
                        solo[k].nops = nops;
                        solo[k].idx = k;
                        conc[k] = solo[k];
                }
                /* alone */
                use_barrier = 0;
                for (int k = 0; k < nthreads; k++)
                        worker(&solo[k]);
                ga_reset();
                /* concurrently */
                use_barrier = 1;
                pthread_barrier_init(&bar, NULL, (unsigned) nthreads);
                pthread_t th[32];
                for (int k = 0; k < nthreads; k++)
                        pthread_create(&th[k], NULL, worker, &conc[k]);
                for (int k = 0; k < nthreads; k++)
                        pthread_join(th[k], NULL);
                pthread_barrier_destroy(&bar);
                ga_reset();
                for (int k = 0; k < nthreads; k++) {
                        tr_begin("Thread");
                        tr_int("round", rd);
                        tr_int("t", k);
                        tr_str("variant", solo[k].v->name);
                        tr_int("jobs", solo[k].njobs);
                        tr_int("nret_solo", solo[k].nret);
                        tr_int("nret_conc", conc[k].nret);
                        tr_int("same_digest", solo[k].digest == conc[k].digest);
                        tr_int("errfield_bad_solo", solo[k].errfield_bad);
                        tr_int("errfield_bad_conc", conc[k].errfield_bad);
                        tr_int("init_bad_solo", solo[k].init_bad);
                        tr_int("init_bad_conc", conc[k].init_bad);
                        tr_end();
                        total += solo[k].njobs;
                }
        }
        fclose(hx_trace);
        fprintf(stderr, "{\"threads\":%d,\"rounds\":%d,\"jobs\":%ld}\n", nthreads, rounds, total);
        return 0;
}
