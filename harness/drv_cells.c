/* C06 / C12(suite part): walks the full product cipher_mode x key size x direction x hash_alg x chain
 * order.  For every cell: session acceptance (imb_set_session) and suite ids, execution through the
 * job API and the burst API with the stage hook recording every table dispatch, composition oracle
 * (cipher-only and hash-only jobs on copies of the buffers), rejected jobs must leave buffers alone.
 * One "Cell" event per cell; spec/Trace_Dispatch.tla decides. */
#define _GNU_SOURCE
#include "hx.h"
#include <stdlib.h>
#include <string.h>
#include <unistd.h>

typedef void (*imb_verif_stage_cb_t)(IMB_MGR *state, const IMB_JOB *job, int kind, unsigned idx,
                                     const IMB_JOB *ret);
extern imb_verif_stage_cb_t imb_verif_stage_cb;

static IMB_MGR *M;
static const hx_variant *V;
static const IMB_JOB *cur_slot;
static int stg[64][2], nstg;

static void
stage_cb(IMB_MGR *state, const IMB_JOB *job, int kind, unsigned idx, const IMB_JOB *ret)
{
        (void) ret;
        if (state != M || job != cur_slot || nstg >= 64)
                return;
        if ((kind & 7) > 1)
                return; /* flush dispatches are not stage submissions */
        stg[nstg][0] = kind;
        stg[nstg][1] = (int) idx;
        nstg++;
}

static void
log_stages(const char *key)
{
        fprintf(hx_trace, ",\"%s\":[", key);
        for (int i = 0; i < nstg; i++)
                fprintf(hx_trace, "%s[%d,%d]", i ? "," : "", stg[i][0], stg[i][1]);
        fputc(']', hx_trace);
}

static int
custom_fn(IMB_JOB *job)
{
        (void) job;
        return 0;
}

/* run the job described by tmpl through the single-job API; returns status or -sig */
static int
run_job_api(hx_job *j, int *err)
{
        int sig = sigsetjmp(hx_fault_jmp, 1);
        if (sig != 0) {
                alarm(0);
                free_mb_mgr(M);
                M = hx_mgr_new(V);
                return -sig;
        }
        alarm(20);
        IMB_JOB *slot = (IMB_JOB *) hx_call((void *) M->get_next_job, 1, (uint64_t) M);
        hx_job_to_slot(j, slot);
        slot->cipher_func = j->tmpl.cipher_func;
        slot->hash_func = j->tmpl.hash_func;
        cur_slot = slot;
        nstg = 0;
        IMB_JOB *r = (IMB_JOB *) hx_call((void *) M->submit_job, 1, (uint64_t) M);
        *err = M->imb_errno;
        if (!r)
                r = (IMB_JOB *) hx_call((void *) M->flush_job, 1, (uint64_t) M);
        alarm(0);
        int st = r ? (int) r->status : -1;
        if (r != slot)
                st = -2;
        while (IMB_FLUSH_JOB(M) != NULL)
                ;
        cur_slot = NULL;
        return st;
}

static int
run_burst_api(hx_job *j, int *err, uint32_t sid[2])
{
        int sig = sigsetjmp(hx_fault_jmp, 1);
        if (sig != 0) {
                alarm(0);
                free_mb_mgr(M);
                M = hx_mgr_new(V);
                return -sig;
        }
        alarm(20);
        IMB_JOB *arr[4];
        uint32_t g = (uint32_t) hx_call((void *) M->get_next_burst, 3, (uint64_t) M, (uint64_t) 1,
                                        (uint64_t) arr);
        if (g != 1) {
                alarm(0);
                return -3;
        }
        IMB_JOB *slot = arr[0];
        hx_job_to_slot(j, slot);
        slot->cipher_func = j->tmpl.cipher_func;
        slot->hash_func = j->tmpl.hash_func;
        imb_set_session(M, slot);
        sid[0] = slot->suite_id[0];
        sid[1] = slot->suite_id[1];
        cur_slot = slot;
        nstg = 0;
        uint32_t n = (uint32_t) hx_call((void *) M->submit_burst, 3, (uint64_t) M, (uint64_t) 1,
                                        (uint64_t) arr);
        *err = M->imb_errno;
        int st;
        if (n == 0 && *err != 0)
                st = (int) slot->status; /* refused */
        else {
                if (n == 0)
                        n = (uint32_t) hx_call((void *) M->flush_burst, 3, (uint64_t) M, (uint64_t) 1,
                                               (uint64_t) arr);
                st = (n == 1 && arr[0] == slot) ? (int) slot->status : -2;
        }
        alarm(0);
        IMB_JOB *tmp[IMB_MAX_JOBS];
        while (IMB_FLUSH_BURST(M, IMB_MAX_JOBS, tmp) != 0)
                ;
        cur_slot = NULL;
        return st;
}

/* one single-algorithm job on the oracle manager; returns 0 when completed */
static int
component(const hx_job *j, int keep_cipher, uint8_t *src, uint8_t *dst, uint8_t *tag)
{
        IMB_JOB *slot = IMB_GET_NEXT_JOB(M);
        hx_job_to_slot(j, slot);
        if (keep_cipher) {
                slot->hash_alg = IMB_AUTH_NULL;
                slot->chain_order = slot->cipher_direction == IMB_DIR_ENCRYPT ? IMB_ORDER_CIPHER_HASH : IMB_ORDER_HASH_CIPHER;
        } else {
                slot->cipher_mode = IMB_CIPHER_NULL;
                slot->hash_alg = IMB_AUTH_CRC32_ETHERNET_FCS;
                slot->chain_order = IMB_ORDER_HASH_CIPHER;
                slot->auth_tag_output = tag;
                slot->auth_tag_output_len_in_bytes = 4;
        }
        slot->src = src;
        slot->dst = dst;
        IMB_JOB *r = IMB_SUBMIT_JOB(M);
        if (!r)
                r = IMB_FLUSH_JOB(M);
        return (r && r->status == IMB_STATUS_COMPLETED) ? 0 : 1;
}

/* DOCSIS SEC BPI + CRC32 (Ethernet PDU over DOCSIS) decomposed into the Ethernet-FCS hash-only job and the
 * DOCSIS-BPI cipher-only job: encrypt = CRC over the hash range, stored behind it, then cipher; decrypt =
 * cipher, then CRC over the deciphered hash range. Either length may be zero (that stage is skipped). */
static int
docsis_crc_composition(const hx_job *j, const hx_spec *sp)
{
        int res = 0;
        uint8_t *buf = ga_alloc(j->src_size + 8, 1, GA_SLACK, "dc_buf", -3);
        uint8_t *crc = ga_alloc(4, 1, GA_SLACK, "dc_crc", -3);
        memcpy(buf, j->src_snapshot, j->src_size);
        memset(crc, 0, 4);
        if (sp->dir == IMB_DIR_ENCRYPT) {
                if (sp->hlen) {
                        if (component(j, 0, buf, NULL, crc))
                                return 4;
                        memcpy(buf + sp->hoff + sp->hlen, crc, 4);
                }
                if (sp->len && component(j, 1, buf, buf + sp->coff, NULL))
                        return 4;
        } else {
                if (sp->len && component(j, 1, buf, buf + sp->coff, NULL))
                        return 4;
                if (sp->hlen && component(j, 0, buf, NULL, crc))
                        return 4;
        }
        /* the whole frame as the combined job left it (in place) */
        if (memcmp(buf, j->src, j->src_size) != 0)
                res |= 1;
        if (sp->hlen >= 14 && memcmp(crc, j->tag, 4) != 0)
                res |= 2;
        return res;
}

/* composition oracle; returns -1 n/a, 0 equal, bit0 dst differs, bit1 tag differs, 4 component failed */
static int
composition(const hx_job *j, const hx_spec *sp)
{
        const IMB_JOB *t = &j->tmpl;
        if (sp->cm == IMB_CIPHER_NULL || sp->ha == IMB_AUTH_NULL)
                return -1;
        switch (sp->ha) { /* AEAD partners have no decomposition */
        case IMB_AUTH_AES_GMAC:
        case IMB_AUTH_AES_CCM:
        case IMB_AUTH_CHACHA20_POLY1305:
        case IMB_AUTH_SNOW_V_AEAD:
        case IMB_AUTH_SM4_GCM:
        case IMB_AUTH_PON_CRC_BIP:
                return -1;
        case IMB_AUTH_DOCSIS_CRC32:
                return sp->cm == IMB_CIPHER_DOCSIS_SEC_BPI ? docsis_crc_composition(j, sp) : -1;
        default:
                break;
        }
        int res = 0;
        /* cipher-only component on a copy of the original source */
        uint8_t *src2 = ga_alloc(j->src_size, 1, GA_SLACK, "c_src", -3);
        memcpy(src2, j->src_snapshot, j->src_size);
        uint8_t *dst2 = sp->inplace ? src2 + sp->coff : ga_alloc(j->dst_size ? j->dst_size : 1, 1, GA_SLACK, "c_dst", -3);
        uint8_t *niv2 = ga_alloc(16, 1, GA_SLACK, "c_niv", -3);
        IMB_JOB *slot = IMB_GET_NEXT_JOB(M);
        hx_job_to_slot(j, slot);
        slot->hash_alg = IMB_AUTH_NULL;
        slot->src = src2;
        slot->dst = dst2;
        if (sp->cm == IMB_CIPHER_CBCS_1_9)
                slot->cipher_fields.CBCS.next_iv = niv2;
        IMB_JOB *r = IMB_SUBMIT_JOB(M);
        if (!r)
                r = IMB_FLUSH_JOB(M);
        if (!r || r->status != IMB_STATUS_COMPLETED)
                return 4;
        size_t n = j->dst_size;
        if (n) {
                if (sp->bitadj && n) {
                        uint8_t m = (uint8_t) (0xff << sp->bitadj);
                        if (memcmp(dst2, j->dst, n - 1) != 0 || ((dst2[n - 1] ^ j->dst[n - 1]) & m))
                                res |= 1;
                } else if (memcmp(dst2, j->dst, n) != 0)
                        res |= 1;
        }
        /* hash-only component over the buffer as the hash stage must have seen it */
        uint8_t *src3 = ga_alloc(j->src_size, 1, GA_SLACK, "h_src", -3);
        memcpy(src3, j->src_snapshot, j->src_size);
        if (sp->inplace && sp->order == IMB_ORDER_CIPHER_HASH)
                memcpy(src3 + sp->coff, dst2, n);
        uint8_t *tag3 = ga_alloc(sp->taglen ? sp->taglen : 1, 1, GA_SLACK, "h_tag", -3);
        slot = IMB_GET_NEXT_JOB(M);
        hx_job_to_slot(j, slot);
        slot->cipher_mode = IMB_CIPHER_NULL;
        slot->chain_order = IMB_ORDER_HASH_CIPHER;
        slot->src = src3;
        slot->dst = NULL;
        slot->auth_tag_output = tag3;
        r = IMB_SUBMIT_JOB(M);
        if (!r)
                r = IMB_FLUSH_JOB(M);
        if (!r || r->status != IMB_STATUS_COMPLETED)
                return res | 4;
        if (sp->taglen && memcmp(tag3, j->tag, sp->taglen) != 0)
                res |= 2;
        (void) t;
        return res;
}

static int
untouched(const hx_job *j)
{
        if (memcmp(j->src, j->src_snapshot, j->src_size) != 0)
                return 0;
        if (j->dst_pre && memcmp(j->dst, j->dst_pre, j->dst_size ? j->dst_size : 1) != 0)
                return 0;
        if (j->tag && memcmp(j->tag, j->tag_pre, j->sp.taglen) != 0)
                return 0;
        return 1;
}

static long ncells, nexec;

static void
cell(int mode, int klen, int dir, int hash, int order, hx_rng *g)
{
        ncells++;
        int kl_build = klen;
        hx_spec sp;
        const int docsis_crc = mode == IMB_CIPHER_DOCSIS_SEC_BPI && hash == IMB_AUTH_DOCSIS_CRC32;
        hx_docsis_shape = docsis_crc ? 2 : -1;
        int built = hx_spec_for(mode, klen, hash, dir, order, g, &sp);
        if (!built) {
                kl_build = hx_any_keylen(mode);
                if (kl_build >= 0 && hx_hash_known(hash))
                        built = hx_spec_for(mode, kl_build, hash, dir, order, g, &sp);
        }
        tr_begin("Cell");
        tr_int("mode", mode);
        tr_int("klen", klen);
        tr_int("dir", dir);
        tr_int("hash", hash);
        tr_int("order", order);
        tr_int("built", built);
        if (!built) {
                /* session acceptance only */
                IMB_JOB job;
                memset(&job, 0, sizeof(job));
                job.cipher_mode = mode;
                job.key_len_in_bytes = klen;
                job.cipher_direction = dir;
                job.hash_alg = hash;
                job.chain_order = order;
                uint32_t id = imb_set_session(M, &job);
                tr_int("sess_ok", id != 0);
                tr_int("sess_errno", M->imb_errno);
                tr_int("sid0", job.suite_id[0]);
                tr_int("sid1", job.suite_id[1]);
                tr_end();
                return;
        }
        sp.placement = GA_SLACK;
        hx_job j, jb;
        if (hx_job_build(M, &sp, 1, &j) != 0) {
                tr_int("built", 0);
                tr_end();
                return;
        }
        j.tmpl.key_len_in_bytes = klen;
        /* CUSTOM stages: the catalogue's call-backs (deterministic cipher / hash), unless the job was built
         * from a stand-in suite */
        if (mode == IMB_CIPHER_CUSTOM && !j.tmpl.cipher_func)
                j.tmpl.cipher_func = custom_fn;
        if (hash == IMB_AUTH_CUSTOM && !j.tmpl.hash_func)
                j.tmpl.hash_func = custom_fn;
        /* --- session descriptor --- */
        IMB_JOB sj;
        memset(&sj, 0, sizeof(sj));
        hx_job_to_slot(&j, &sj);
        uint32_t id = imb_set_session(M, &sj);
        tr_int("sess_ok", id != 0);
        tr_int("sess_errno", M->imb_errno);
        tr_int("sid0", sj.suite_id[0]);
        tr_int("sid1", sj.suite_id[1]);
        tr_int("inplace", sp.inplace);
        tr_int("len", sp.len);
        tr_int("hlen", sp.hlen);
        tr_int("seedlo", (long long) (sp.seed & 0xffffff));
        /* --- job API --- */
        int err = 0;
        int st = run_job_api(&j, &err);
        nexec++;
        tr_int("st", st);
        tr_int("errno", err);
        log_stages("stages");
        int comp = -1, unt = 1;
        if (st == IMB_STATUS_COMPLETED)
                comp = composition(&j, &sp);
        else if (st == IMB_STATUS_INVALID_ARGS)
                unt = untouched(&j);
        tr_int("comp", comp);
        tr_int("untouched", unt);
        /* --- burst API on an identical job --- */
        hx_job_build(M, &sp, 2, &jb);
        jb.tmpl.key_len_in_bytes = klen;
        jb.tmpl.cipher_func = j.tmpl.cipher_func;
        jb.tmpl.hash_func = j.tmpl.hash_func;
        uint32_t bsid[2] = { 0, 0 };
        int berr = 0;
        int bst = run_burst_api(&jb, &berr, bsid);
        tr_int("bst", bst);
        tr_int("berrno", berr);
        tr_int("bsid0", bsid[0]);
        tr_int("bsid1", bsid[1]);
        log_stages("bstages");
        tr_int("burst_eq", (st == IMB_STATUS_COMPLETED && bst == IMB_STATUS_COMPLETED)
                                   ? (hx_job_cmp_out(&j, &jb) == 0)
                                   : -1);
        tr_int("abi", (long long) hx_abi_viol_bits);
        if (docsis_crc && st == IMB_STATUS_COMPLETED) {
                /* the other valid shapes of this cell: cipher without CRC, CRC without cipher */
                int sh[2][5];
                for (int s = 0; s < 2; s++) {
                        hx_spec sp2;
                        hx_job a, b;
                        hx_docsis_shape = s;
                        hx_spec_for(mode, klen, hash, dir, order, g, &sp2);
                        sp2.placement = GA_SLACK;
                        hx_job_build(M, &sp2, 3, &a);
                        hx_job_build(M, &sp2, 4, &b);
                        int e2 = 0;
                        uint32_t sid2[2];
                        sh[s][0] = s;
                        sh[s][1] = run_job_api(&a, &e2);
                        sh[s][2] = sh[s][1] == IMB_STATUS_COMPLETED ? composition(&a, &sp2) : -9;
                        sh[s][3] = run_burst_api(&b, &e2, sid2);
                        sh[s][4] = (sh[s][1] == IMB_STATUS_COMPLETED && sh[s][3] == IMB_STATUS_COMPLETED) ? (hx_job_cmp_out(&a, &b) == 0) : -1;
                        hx_job_free(&a);
                        hx_job_free(&b);
                }
                fprintf(hx_trace, ",\"shapes\":[[%d,%d,%d,%d,%d],[%d,%d,%d,%d,%d]]", sh[0][0], sh[0][1], sh[0][2], sh[0][3], sh[0][4],
                        sh[1][0], sh[1][1], sh[1][2], sh[1][3], sh[1][4]);
        } else
                fprintf(hx_trace, ",\"shapes\":[]");
        hx_docsis_shape = -1;
        tr_end();
        hx_job_free(&j);
        hx_job_free(&jb);
        ga_reset();
}

int
drv_cells(int argc, char **argv)
{
        const char *out = NULL, *variant = "avx2_t1";
        uint64_t seed = 1;
        int only_mode = 0;
        for (int i = 0; i < argc; i++) {
                if (!strcmp(argv[i], "--out"))
                        out = argv[++i];
                else if (!strcmp(argv[i], "--variant"))
                        variant = argv[++i];
                else if (!strcmp(argv[i], "--seed"))
                        seed = strtoull(argv[++i], NULL, 0);
                else if (!strcmp(argv[i], "--mode"))
                        only_mode = atoi(argv[++i]);
        }
        hx_trace = out ? fopen(out, "w") : stdout;
        static char tbuf[1 << 20];
        setvbuf(hx_trace, tbuf, _IOFBF, sizeof(tbuf));
        V = hx_variant_by_name(variant);
        M = V ? hx_mgr_new(V) : NULL;
        if (!M)
                return 2;
        imb_verif_stage_cb = stage_cb;
        hx_rng g;
        hx_seed(&g, seed);
        tr_begin("CellsBegin");
        tr_str("variant", variant);
        tr_end();
        static const int klens[] = { 8, 16, 24, 32 };
        for (int mode = 1; mode <= 28; mode++) {
                if (only_mode && mode != only_mode)
                        continue;
                for (int k = 0; k < 4; k++)
                        for (int dir = 1; dir <= 2; dir++)
                                for (int hash = 1; hash <= 49; hash++)
                                        for (int order = 1; order <= 2; order++)
                                                cell(mode, klens[k], dir, hash, order, &g);
        }
        tr_begin("CellsEnd");
        tr_int("cells", ncells);
        tr_end();
        fclose(hx_trace);
        fprintf(stderr, "{\"cells\":%ld,\"executed\":%ld,\"abi_viol\":%d}\n", ncells, nexec,
                hx_abi_viol_total);
        return 0;
}
