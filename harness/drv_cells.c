/* C06 / C12(suite part): walks the full product cipher_mode x key size x direction x hash_alg x chain
 * order.  For every cell: session acceptance (imb_set_session) and suite ids, execution through the
 * job API and the burst API with the stage hook recording every table dispatch, composition oracle
 * (cipher-only and hash-only jobs on copies of the buffers), rejected jobs must leave buffers alone.
 * One "Cell" event per cell; spec/Trace_Dispatch.tla decides. */
#define _GNU_SOURCE
#include "hx.h"
#include <stdlib.h>
#include <string.h>
#include <unistd.h>

typedef void (*imb_verif_stage_cb_t)(IMB_MGR *state, const IMB_JOB *job, int kind, unsigned idx,
                                     const IMB_JOB *ret);
extern imb_verif_stage_cb_t imb_verif_stage_cb;

static IMB_MGR *M;
static const hx_variant *V;
static const IMB_JOB *cur_slot;
static int stg[64][2], nstg;

static void
stage_cb(IMB_MGR *state, const IMB_JOB *job, int kind, unsigned idx, const IMB_JOB *ret)
{
        (void) ret;
        if (state != M || job != cur_slot || nstg >= 64)
                return;
        if ((kind & 7) > 1)
                return; /* flush dispatches are not stage submissions */
        stg[nstg][0] = kind;
        stg[nstg][1] = (int) idx;
        nstg++;
}

static void
log_stages(const char *key)
{
        fprintf(hx_trace, ",\"%s\":[", key);
        for (int i = 0; i < nstg; i++)
                fprintf(hx_trace, "%s[%d,%d]", i ? "," : "", stg[i][0], stg[i][1]);
        fputc(']', hx_trace);
}

static int
custom_fn(IMB_JOB *job)
{
        (void) job;
        return 0;
}

/* run the job described by tmpl through the single-job API; returns status or -sig */
static int
run_job_api(hx_job *j, int *err)
{
        int sig = sigsetjmp(hx_fault_jmp, 1);
        if (sig != 0) {
                alarm(0);
                free_mb_mgr(M);
                M = hx_mgr_new(V);
                return -sig;
        }
        alarm(20);
        IMB_JOB *slot = (IMB_JOB *) hx_call((void *) M->get_next_job, 1, (uint64_t) M);
        hx_job_to_slot(j, slot);
        slot->cipher_func = j->tmpl.cipher_func;
        slot->hash_func = j->tmpl.hash_func;
        cur_slot = slot;
        nstg = 0;
        IMB_JOB *r = (IMB_JOB *) hx_call((void *) M->submit_job, 1, (uint64_t) M);
        *err = M->imb_errno;
        if (!r)
                r = (IMB_JOB *) hx_call((void *) M->flush_job, 1, (uint64_t) M);
        alarm(0);
        int st = r ? (int) r->status : -1;
        if (r != slot)
                st = -2;
        while (IMB_FLUSH_JOB(M) != NULL)
                ;
        cur_slot = NULL;
        return st;
}

static int
run_burst_api(hx_job *j, int *err, uint32_t sid[2])
{
        int sig = sigsetjmp(hx_fault_jmp, 1);
        if (sig != 0) {
                alarm(0);
                free_mb_mgr(M);
                M = hx_mgr_new(V);
                return -sig;
        }
        alarm(20);
        IMB_JOB *arr[4];
        uint32_t g = (uint32_t) hx_call((void *) M->get_next_burst, 3, (uint64_t) M, (uint64_t) 1,
                                        (uint64_t) arr);
        if (g != 1) {
                alarm(0);
                return -3;
        }
        IMB_JOB *slot = arr[0];
        hx_job_to_slot(j, slot);
        slot->cipher_func = j->tmpl.cipher_func;
        slot->hash_func = j->tmpl.hash_func;
        imb_set_session(M, slot);
        sid[0] = slot->suite_id[0];
        sid[1] = slot->suite_id[1];
        cur_slot = slot;
        nstg = 0;
        uint32_t n = (uint32_t) hx_call((void *) M->submit_burst, 3, (uint64_t) M, (uint64_t) 1,
                                        (uint64_t) arr);
        *err = M->imb_errno;
        int st;
        if (n == 0 && *err != 0)
                st = (int) slot->status; /* refused */
        else {
                if (n == 0)
                        n = (uint32_t) hx_call((void *) M->flush_burst, 3, (uint64_t) M, (uint64_t) 1,
                                               (uint64_t) arr);
                st = (n == 1 && arr[0] == slot) ? (int) slot->status : -2;
        }
        alarm(0);
        IMB_JOB *tmp[IMB_MAX_JOBS];
        while (IMB_FLUSH_BURST(M, IMB_MAX_JOBS, tmp) != 0)
                ;
        cur_slot = NULL;
        return st;
}

/* composition oracle; returns -1 n/a, 0 equal, bit0 dst differs, bit1 tag differs, 4 component failed */
static int
composition(const hx_job *j, const hx_spec *sp)
{
        const IMB_JOB *t = &j->tmpl;
        if (sp->cm == IMB_CIPHER_NULL || sp->ha == IMB_AUTH_NULL)
                return -1;
        switch (sp->ha) { /* AEAD partners have no decomposition */
        case IMB_AUTH_AES_GMAC:
        case IMB_AUTH_AES_CCM:
        case IMB_AUTH_CHACHA20_POLY1305:
        case IMB_AUTH_SNOW_V_AEAD:
        case IMB_AUTH_SM4_GCM:
        case IMB_AUTH_DOCSIS_CRC32:
                return -1;
        default:
                break;
        }
        int res = 0;
        /* cipher-only component on a copy of the original source */
        uint8_t *src2 = ga_alloc(j->src_size, 1, GA_SLACK, "c_src", -3);
        memcpy(src2, j->src_snapshot, j->src_size);
        uint8_t *dst2 = sp->inplace ? src2 + sp->coff : ga_alloc(j->dst_size ? j->dst_size : 1, 1, GA_SLACK, "c_dst", -3);
        uint8_t *niv2 = ga_alloc(16, 1, GA_SLACK, "c_niv", -3);
        IMB_JOB *slot = IMB_GET_NEXT_JOB(M);
        hx_job_to_slot(j, slot);
        slot->hash_alg = IMB_AUTH_NULL;
        slot->src = src2;
        slot->dst = dst2;
        if (sp->cm == IMB_CIPHER_CBCS_1_9)
                slot->cipher_fields.CBCS.next_iv = niv2;
        IMB_JOB *r = IMB_SUBMIT_JOB(M);
        if (!r)
                r = IMB_FLUSH_JOB(M);
        if (!r || r->status != IMB_STATUS_COMPLETED)
                return 4;
        size_t n = j->dst_size;
        if (n) {
                if (sp->bitadj && n) {
                        uint8_t m = (uint8_t) (0xff << sp->bitadj);
                        if (memcmp(dst2, j->dst, n - 1) != 0 || ((dst2[n - 1] ^ j->dst[n - 1]) & m))
                                res |= 1;
                } else if (memcmp(dst2, j->dst, n) != 0)
                        res |= 1;
        }
        /* hash-only component over the buffer as the hash stage must have seen it */
        uint8_t *src3 = ga_alloc(j->src_size, 1, GA_SLACK, "h_src", -3);
        memcpy(src3, j->src_snapshot, j->src_size);
        if (sp->inplace && sp->order == IMB_ORDER_CIPHER_HASH)
                memcpy(src3 + sp->coff, dst2, n);
        uint8_t *tag3 = ga_alloc(sp->taglen ? sp->taglen : 1, 1, GA_SLACK, "h_tag", -3);
        slot = IMB_GET_NEXT_JOB(M);
        hx_job_to_slot(j, slot);
        slot->cipher_mode = IMB_CIPHER_NULL;
        slot->chain_order = IMB_ORDER_HASH_CIPHER;
        slot->src = src3;
        slot->dst = NULL;
        slot->auth_tag_output = tag3;
        r = IMB_SUBMIT_JOB(M);
        if (!r)
                r = IMB_FLUSH_JOB(M);
        if (!r || r->status != IMB_STATUS_COMPLETED)
                return res | 4;
        if (sp->taglen && memcmp(tag3, j->tag, sp->taglen) != 0)
                res |= 2;
        (void) t;
        return res;
}

static int
untouched(const hx_job *j)
{
        if (memcmp(j->src, j->src_snapshot, j->src_size) != 0)
                return 0;
        if (j->dst_pre && memcmp(j->dst, j->dst_pre, j->dst_size ? j->dst_size : 1) != 0)
                return 0;
        if (j->tag && memcmp(j->tag, j->tag_pre, j->sp.taglen) != 0)
                return 0;
        return 1;
}

static long ncells, nexec;

static void
cell(int mode, int klen, int dir, int hash, int order, hx_rng *g)
{
        ncells++;
        int kl_build = klen;
        hx_spec sp;
        int built = hx_spec_for(mode, klen, hash, dir, order, g, &sp);
        if (!built) {
                kl_build = hx_any_keylen(mode);
                if (kl_build >= 0 && hx_hash_known(hash))
                        built = hx_spec_for(mode, kl_build, hash, dir, order, g, &sp);
        }
        tr_begin("Cell");
        tr_int("mode", mode);
        tr_int("klen", klen);
        tr_int("dir", dir);
        tr_int("hash", hash);
        tr_int("order", order);
        tr_int("built", built);
        if (!built) {
                /* session acceptance only */
                IMB_JOB job;
                memset(&job, 0, sizeof(job));
                job.cipher_mode = mode;
                job.key_len_in_bytes = klen;
                job.cipher_direction = dir;
                job.hash_alg = hash;
                job.chain_order = order;
                uint32_t id = imb_set_session(M, &job);
                tr_int("sess_ok", id != 0);
                tr_int("sess_errno", M->imb_errno);
                tr_int("sid0", job.suite_id[0]);
                tr_int("sid1", job.suite_id[1]);
                tr_end();
                return;
        }
        sp.placement = GA_SLACK;
        hx_job j, jb;
        if (hx_job_build(M, &sp, 1, &j) != 0) {
                tr_int("built", 0);
                tr_end();
                return;
        }
        j.tmpl.key_len_in_bytes = klen;
        if (mode == IMB_CIPHER_CUSTOM)
                j.tmpl.cipher_func = custom_fn;
        if (hash == IMB_AUTH_CUSTOM)
                j.tmpl.hash_func = custom_fn;
        /* --- session descriptor --- */
        IMB_JOB sj;
        memset(&sj, 0, sizeof(sj));
        hx_job_to_slot(&j, &sj);
        uint32_t id = imb_set_session(M, &sj);
        tr_int("sess_ok", id != 0);
        tr_int("sess_errno", M->imb_errno);
        tr_int("sid0", sj.suite_id[0]);
        tr_int("sid1", sj.suite_id[1]);
        tr_int("inplace", sp.inplace);
        tr_int("len", sp.len);
        tr_int("hlen", sp.hlen);
        tr_int("seedlo", (long long) (sp.seed & 0xffffff));
        /* --- job API --- */
        int err = 0;
        int st = run_job_api(&j, &err);
        nexec++;
        tr_int("st", st);
        tr_int("errno", err);
        log_stages("stages");
        int comp = -1, unt = 1;
        if (st == IMB_STATUS_COMPLETED)
                comp = composition(&j, &sp);
        else if (st == IMB_STATUS_INVALID_ARGS)
                unt = untouched(&j);
        tr_int("comp", comp);
        tr_int("untouched", unt);
        /* --- burst API on an identical job --- */
        hx_job_build(M, &sp, 2, &jb);
        jb.tmpl.key_len_in_bytes = klen;
        jb.tmpl.cipher_func = j.tmpl.cipher_func;
        jb.tmpl.hash_func = j.tmpl.hash_func;
        uint32_t bsid[2] = { 0, 0 };
        int berr = 0;
        int bst = run_burst_api(&jb, &berr, bsid);
        tr_int("bst", bst);
        tr_int("berrno", berr);
        tr_int("bsid0", bsid[0]);
        tr_int("bsid1", bsid[1]);
        log_stages("bstages");
        tr_int("burst_eq", (st == IMB_STATUS_COMPLETED && bst == IMB_STATUS_COMPLETED)
                                   ? (hx_job_cmp_out(&j, &jb) == 0)
                                   : -1);
        tr_int("abi", (long long) hx_abi_viol_bits);
        tr_end();
        hx_job_free(&j);
        hx_job_free(&jb);
        ga_reset();
}

int
drv_cells(int argc, char **argv)
{
        const char *out = NULL, *variant = "avx2_t1";
        uint64_t seed = 1;
        int only_mode = 0;
        for (int i = 0; i < argc; i++) {
                if (!strcmp(argv[i], "--out"))
                        out = argv[++i];
                else if (!strcmp(argv[i], "--variant"))
                        variant = argv[++i];
                else if (!strcmp(argv[i], "--seed"))
                        seed = strtoull(argv[++i], NULL, 0);
                else if (!strcmp(argv[i], "--mode"))
                        only_mode = atoi(argv[++i]);
        }
        hx_trace = out ? fopen(out, "w") : stdout;
        static char tbuf[1 << 20];
        setvbuf(hx_trace, tbuf, _IOFBF, sizeof(tbuf));
        V = hx_variant_by_name(variant);
        M = V ? hx_mgr_new(V) : NULL;
        if (!M)
                return 2;
        imb_verif_stage_cb = stage_cb;
        hx_rng g;
        hx_seed(&g, seed);
        tr_begin("CellsBegin");
        tr_str("variant", variant);
        tr_end();
        static const int klens[] = { 8, 16, 24, 32 };
        for (int mode = 1; mode <= 28; mode++) {
                if (only_mode && mode != only_mode)
                        continue;
                for (int k = 0; k < 4; k++)
                        for (int dir = 1; dir <= 2; dir++)
                                for (int hash = 1; hash <= 49; hash++)
                                        for (int order = 1; order <= 2; order++)
                                                cell(mode, klens[k], dir, hash, order, &g);
        }
        tr_begin("CellsEnd");
        tr_int("cells", ncells);
        tr_end();
        fclose(hx_trace);
        fprintf(stderr, "{\"cells\":%ld,\"executed\":%ld,\"abi_viol\":%d}\n", ncells, nexec,
                hx_abi_viol_total);
        return 0;
}
