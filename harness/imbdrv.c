#define _GNU_SOURCE
#include "hx.h"
#include <string.h>
#include <stdlib.h>

int drv_sched(int argc, char **argv);
int drv_sweep(int argc, char **argv);
int drv_cells(int argc, char **argv);
int drv_entry(int argc, char **argv);
int drv_ref(int argc, char **argv);
int drv_threads(int argc, char **argv);
int drv_strerr(int argc, char **argv);
int drv_dargs(int argc, char **argv);
int drv_keyres(int argc, char **argv);
int drv_keydiff(int argc, char **argv);
int drv_sgl(int argc, char **argv);
int drv_kinds(int argc, char **argv);
int drv_invalid(int argc, char **argv);
int drv_xvar(int argc, char **argv);
int drv_cpusel(int argc, char **argv);
int drv_selftest(int argc, char **argv);

int
main(int argc, char **argv)
{
        if (argc < 2) {
                fprintf(stderr, "usage: imbdrv <mode> ...\n");
                return 2;
        }
        setvbuf(stderr, NULL, _IOLBF, 0);
        ga_init();
        hx_install_handlers();
        if (!strcmp(argv[1], "sched"))
                return drv_sched(argc - 2, argv + 2);
        if (!strcmp(argv[1], "selftest"))
                return drv_selftest(argc - 2, argv + 2);
        if (!strcmp(argv[1], "cpusel"))
                return drv_cpusel(argc - 2, argv + 2);
        if (!strcmp(argv[1], "xvar"))
                return drv_xvar(argc - 2, argv + 2);
        if (!strcmp(argv[1], "kinds"))
                return drv_kinds(argc - 2, argv + 2);
        if (!strcmp(argv[1], "invalid"))
                return drv_invalid(argc - 2, argv + 2);
        if (!strcmp(argv[1], "sgl"))
                return drv_sgl(argc - 2, argv + 2);
        if (!strcmp(argv[1], "threads"))
                return drv_threads(argc - 2, argv + 2);
        if (!strcmp(argv[1], "keyres"))
                return drv_keyres(argc - 2, argv + 2);
        if (!strcmp(argv[1], "keydiff"))
                return drv_keydiff(argc - 2, argv + 2);
        if (!strcmp(argv[1], "dargs"))
                return drv_dargs(argc - 2, argv + 2);
        if (!strcmp(argv[1], "strerr"))
                return drv_strerr(argc - 2, argv + 2);
        if (!strcmp(argv[1], "ref"))
                return drv_ref(argc - 2, argv + 2);
        if (!strcmp(argv[1], "entry"))
                return drv_entry(argc - 2, argv + 2);
        if (!strcmp(argv[1], "cells"))
                return drv_cells(argc - 2, argv + 2);
        if (!strcmp(argv[1], "sweep"))
                return drv_sweep(argc - 2, argv + 2);
        fprintf(stderr, "unknown mode %s\n", argv[1]);
        return 2;
}
