/* Single-job sweep driver (C07 / C01-C03 support): every job runs alone on a manager of the given
 * variant with all caller objects end-flush (or start-flush) against PROT_NONE pages; a second run
 * with the in-place flag flipped must give the same output. One event per job. */
#define _GNU_SOURCE
#include "hx.h"
#include <stdlib.h>
#include <string.h>
#include <unistd.h>

static IMB_MGR *M;
/* chained (non-AEAD) cipher+hash: the hash input depends on whether dst aliases src */
static int
hfind_is_plain_chain(const hx_spec *sp)
{
        switch (sp->ha) {
        case IMB_AUTH_AES_GMAC:
        case IMB_AUTH_AES_CCM:
        case IMB_AUTH_CHACHA20_POLY1305:
        case IMB_AUTH_SNOW_V_AEAD:
        case IMB_AUTH_SM4_GCM:
                return 0;
        default:
                return sp->cm != IMB_CIPHER_NULL;
        }
}
static const hx_variant *V;

/* run one job; returns status, -sig on fault */
static int
run_one(const hx_spec *sp, hx_job *j, const ga_obj **fobj, long *foff)
{
        if (hx_job_build(M, sp, 1, j) != 0)
                return -100;
        int sig = sigsetjmp(hx_fault_jmp, 1);
        if (sig != 0) {
                alarm(0);
                const ga_obj *o = ga_find((const void *) hx_fault_addr);
                *fobj = o;
                *foff = o ? (long) ((const uint8_t *) hx_fault_addr - o->ptr) : 0;
                /* manager state is unknown after a fault: start over */
                free_mb_mgr(M);
                M = hx_mgr_new(V);
                return -sig;
        }
        alarm(20);
        IMB_JOB *slot = (IMB_JOB *) hx_call((void *) M->get_next_job, 1, (uint64_t) M);
        hx_job_to_slot(j, slot);
        IMB_JOB *r = (IMB_JOB *) hx_call((void *) M->submit_job, 1, (uint64_t) M);
        if (!r)
                r = (IMB_JOB *) hx_call((void *) M->flush_job, 1, (uint64_t) M);
        alarm(0);
        int st = r ? (int) r->status : -1;
        while (IMB_FLUSH_JOB(M) != NULL)
                ;
        return st;
}

static long njobs, nfault;
static const char *variant_name;

static void
exec_spec(const char *kind, const hx_spec *spp)
{
        hx_spec sp = *spp;
        uint64_t abi0 = hx_abi_viol_bits;
        int abin0 = hx_abi_viol_total;
        hx_abi_viol_bits = 0;
                        hx_job a, b;
                        const ga_obj *fo = NULL;
                        long foff = 0;
                        int st = run_one(&sp, &a, &fo, &foff);
                        njobs++;
                        tr_begin("Job");
                        tr_str("variant", variant_name);
                        tr_str("kind", kind);
                        tr_int("len", sp.len);
                        tr_int("hlen", sp.hlen);
                        tr_int("coff", sp.coff);
                        tr_int("hoff", sp.hoff);
                        tr_int("taglen", sp.taglen);
                        tr_int("aadlen", sp.aadlen);
                        tr_int("ivlen", sp.ivlen);
                        tr_int("bitadj", sp.bitadj);
                        tr_int("cctr", sp.ctrcls);
                        tr_int("pli", sp.pli);
                        tr_int("inplace", sp.inplace);
                        tr_int("place", sp.placement);
                        tr_int("seedlo", (long long) (sp.seed & 0xffffff));
                        tr_int("seedmid", (long long) ((sp.seed >> 24) & 0xffffff));
                        tr_int("seedhi", (long long) (sp.seed >> 48));
                        tr_int("st", st);
                        if (st < 0 && st > -100) {
                                nfault++;
                                tr_str("fobj", fo ? fo->name : "?");
                                tr_int("foff", foff);
                                tr_int("fsize", fo ? (long long) fo->size : 0);
                        } else {
                                const ga_obj *bad = NULL;
                                tr_int("canary", ga_check_canaries(&bad));
                                tr_int("srcmod", hx_job_check_bounds(&a));
                                /* in-place twin */
                                if (sp.cm != IMB_CIPHER_NULL && sp.ha != IMB_AUTH_DOCSIS_CRC32 && sp.ha != IMB_AUTH_PON_CRC_BIP &&
                                    sp.cm != IMB_CIPHER_CBCS_1_9) {
                                        hx_spec sp2 = sp;
                                        sp2.inplace = !sp.inplace;
                                        sp2.placement = GA_SLACK;
                                        const ga_obj *fo2 = NULL;
                                        long foff2 = 0;
                                        int st2 = run_one(&sp2, &b, &fo2, &foff2);
                                        tr_int("st2", st2);
                                        /* the twin's hash input differs when hash reads the in-place
                                         * ciphertext: compare cipher output only in that case */
                                        int d = st2 == st ? hx_job_cmp_out(&a, &b) : 8;
                                        if (sp.ha != IMB_AUTH_NULL && hfind_is_plain_chain(&sp))
                                                d &= ~2;
                                        tr_int("iodiff", d);
                                        hx_job_free(&b);
                                }
                        }
                        tr_int("abi", (long long) hx_abi_viol_bits);
                        hx_abi_viol_bits |= abi0;
                        (void) abin0;
                        tr_end();
                        hx_job_free(&a);
                        ga_reset();
}

static long jint(const char *line, const char *key);
static void replay_file(const char *path);

int
drv_sweep(int argc, char **argv)
{
        const char *out = NULL, *variant = "sse_t1", *kinds = NULL, *replay = NULL;
        int n = 200, dense = 0;
        uint64_t seed = 1;
        for (int i = 0; i < argc; i++) {
                if (!strcmp(argv[i], "--out"))
                        out = argv[++i];
                else if (!strcmp(argv[i], "--variant"))
                        variant = argv[++i];
                else if (!strcmp(argv[i], "--kinds"))
                        kinds = argv[++i];
                else if (!strcmp(argv[i], "--n"))
                        n = atoi(argv[++i]);
                else if (!strcmp(argv[i], "--replay"))
                        replay = argv[++i];
                else if (!strcmp(argv[i], "--dense"))
                        dense = atoi(argv[++i]);
                else if (!strcmp(argv[i], "--seed"))
                        seed = strtoull(argv[++i], NULL, 0);
        }
        hx_trace = out ? fopen(out, "w") : stdout;
        if (replay) {
                replay_file(replay);
                fclose(hx_trace);
                fprintf(stderr, "{\"jobs\":%ld,\"faults\":%ld,\"abi_viol\":%d}\n", njobs, nfault,
                        hx_abi_viol_total);
                return 0;
        }
        V = hx_variant_by_name(variant);
        variant_name = variant;
        M = V ? hx_mgr_new(V) : NULL;
        if (!M) {
                fprintf(stderr, "variant unavailable\n");
                return 2;
        }
        const char *klist[256];
        int nk = 0;
        char kb[4096];
        if (kinds) {
                snprintf(kb, sizeof(kb), "%s", kinds);
                for (char *p = strtok(kb, ","); p && nk < 256; p = strtok(NULL, ","))
                        klist[nk++] = p;
        } else
                for (int i = 0; i < hx_nkinds; i++)
                        klist[nk++] = hx_kinds[i];
        hx_rng g;
        hx_seed(&g, seed);
        for (int k = 0; k < nk; k++) {
                for (int it = 0; it < n + 2 * dense; it++) {
                        hx_spec sp;
                        /* the first 2*dense iterations walk message length 0..dense-1, each with the
                         * objects end-flush and start-flush against the guard page */
                        hx_force_len = it < 2 * dense ? it / 2 : -1;
                        if (!hx_spec_from_kind(klist[k], &g, &sp)) {
                                fprintf(stderr, "unknown kind %s\n", klist[k]);
                                return 2;
                        }
                        if (it < 2 * dense)
                                sp.placement = (it & 1) ? GA_START : GA_END;
                        exec_spec(klist[k], &sp);
                }
        }
        fclose(hx_trace);
        fprintf(stderr, "{\"jobs\":%ld,\"faults\":%ld,\"abi_viol\":%d}\n", njobs, nfault,
                hx_abi_viol_total);
        return 0;
}

static long
jint(const char *line, const char *key)
{
        char pat[64];
        snprintf(pat, sizeof(pat), "\"%s\":", key);
        const char *p = strstr(line, pat);
        return p ? strtol(p + strlen(pat), NULL, 10) : 0;
}

static void
jstr(const char *line, const char *key, char *out, size_t n)
{
        char pat[64];
        snprintf(pat, sizeof(pat), "\"%s\":\"", key);
        const char *p = strstr(line, pat);
        out[0] = 0;
        if (!p)
                return;
        p += strlen(pat);
        size_t i = 0;
        while (*p && *p != '"' && i + 1 < n)
                out[i++] = *p++;
        out[i] = 0;
}

/* re-execute every Job event of a recorded sweep file from its logged parameters */
static void
replay_file(const char *path)
{
        FILE *f = fopen(path, "r");
        static char line[1 << 16];
        char kind[64], var[32], cur[32] = "";
        if (!f)
                return;
        while (fgets(line, sizeof(line), f)) {
                if (!strstr(line, "\"e\":\"Job\""))
                        continue;
                jstr(line, "kind", kind, sizeof(kind));
                jstr(line, "variant", var, sizeof(var));
                if (strcmp(var, cur) != 0) {
                        if (M)
                                free_mb_mgr(M);
                        V = hx_variant_by_name(var);
                        M = V ? hx_mgr_new(V) : NULL;
                        snprintf(cur, sizeof(cur), "%s", var);
                        variant_name = cur;
                        if (!M)
                                continue;
                }
                hx_rng g;
                hx_seed(&g, 1);
                hx_spec sp;
                if (!hx_spec_from_kind(kind, &g, &sp))
                        continue;
                sp.len = (uint32_t) jint(line, "len");
                sp.hlen = (uint32_t) jint(line, "hlen");
                sp.coff = (uint32_t) jint(line, "coff");
                sp.hoff = (uint32_t) jint(line, "hoff");
                sp.taglen = (uint32_t) jint(line, "taglen");
                sp.aadlen = (uint32_t) jint(line, "aadlen");
                sp.ivlen = (uint32_t) jint(line, "ivlen");
                sp.bitadj = (uint32_t) jint(line, "bitadj");
                sp.ctrcls = (uint32_t) jint(line, "cctr");
                sp.pli = (uint32_t) jint(line, "pli");
                sp.inplace = (int) jint(line, "inplace");
                sp.placement = (int) jint(line, "place");
                sp.seed = (uint64_t) jint(line, "seedlo") | ((uint64_t) jint(line, "seedmid") << 24) |
                          ((uint64_t) jint(line, "seedhi") << 48);
                exec_spec(kind, &sp);
        }
        fclose(f);
}
