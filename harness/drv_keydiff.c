/* C13 - key-dependence differential.  The same schedule (same suite, lengths, messages, IVs, buffer addresses, manager
 * address) is executed twice with different cipher / authentication keys.  Once every job has been handed back, nothing
 * the library keeps may depend on the keys: the manager's storage (ring + every out-of-order manager), the vector and
 * general-purpose registers and the dead stack of the last call are compared between the two runs.  Bytes that differ
 * are key-derived; they are a residue unless they are (part of) a public output of the jobs (ciphertext, tag), which
 * also depends on the key.  One "KeyDiff" event per (variant, kind, shape). */
#define _GNU_SOURCE
#include "hx.h"
#include <stdlib.h>
#include <string.h>
#include <unistd.h>

#define MAXJ 40
static const hx_variant *V;
static uint8_t *mem;   /* manager storage, same address for both runs */
static size_t msz;
static long nitems;

typedef struct {
        uint8_t *snap;
        uint8_t vec[32 * 64];
        uint64_t gpr[16];
        uint8_t stack[HX_STACK_SCAN];
        uint8_t *pub; /* concatenated public outputs */
        size_t npub;
        int ok;
} run_t;

static void
pub_add(run_t *r, const uint8_t *p, size_t n)
{
        if (!p || !n)
                return;
        r->pub = realloc(r->pub, r->npub + n + 16);
        memcpy(r->pub + r->npub, p, n);
        r->npub += n;
        memset(r->pub + r->npub, 0xA5, 16); /* separator */
        r->npub += 16;
}


/* the out-of-order managers inside the manager's storage, by address: a differing span is attributed to one of them
 * (or to "ring": the IMB_MGR structure with the job ring) */
#define OOO_LIST(X)                                                                                                    \
        X(aes128_ooo) X(aes192_ooo) X(aes256_ooo) X(docsis128_sec_ooo) X(docsis128_crc32_sec_ooo) X(docsis256_sec_ooo)   \
        X(docsis256_crc32_sec_ooo) X(des_enc_ooo) X(des_dec_ooo) X(des3_enc_ooo) X(des3_dec_ooo) X(docsis_des_enc_ooo)  \
        X(docsis_des_dec_ooo) X(hmac_sha_1_ooo) X(hmac_sha_224_ooo) X(hmac_sha_256_ooo) X(hmac_sha_384_ooo)             \
        X(hmac_sha_512_ooo) X(hmac_md5_ooo) X(aes_xcbc_ooo) X(aes_ccm_ooo) X(aes_cmac_ooo) X(zuc_eea3_ooo)              \
        X(zuc_eia3_ooo) X(aes128_cbcs_ooo) X(zuc256_eea3_ooo) X(zuc256_eia3_ooo) X(aes256_ccm_ooo) X(aes256_cmac_ooo)    \
        X(snow3g_uea2_ooo) X(snow3g_uia2_ooo) X(sha_1_ooo) X(sha_224_ooo) X(sha_256_ooo) X(sha_384_ooo) X(sha_512_ooo)   \
        X(aes_cfb_128_ooo) X(aes_cfb_192_ooo) X(aes_cfb_256_ooo) X(zuc256_eia3_8B_ooo) X(zuc256_eia3_16B_ooo) X(end_ooo)
static struct {
        const char *name;
        size_t off;
} ooo[64];
static int nooo;

static void
ooo_table(const IMB_MGR *M)
{
        nooo = 0;
#define X(f)                                                                                                           \
        if (M->f) {                                                                                                    \
                ooo[nooo].name = #f;                                                                                   \
                ooo[nooo].off = (size_t) ((const uint8_t *) M->f - (const uint8_t *) M);                               \
                nooo++;                                                                                                \
        }
        OOO_LIST(X)
#undef X
}

static const char *
ooo_of(size_t off)
{
        const char *best = "ring";
        size_t bo = 0;
        for (int i = 0; i < nooo; i++)
                if (ooo[i].off <= off && ooo[i].off >= bo) {
                        bo = ooo[i].off;
                        best = ooo[i].name;
                }
        return best;
}

/* per-manager byte counts of the last diff_windows() call over the manager storage */
static struct {
        const char *name;
        long cnt;
} where[64];
static int nwhere;
static int attribute;

/* shapes: 0 one job; 1 five jobs of one length; 2 seventeen jobs of unequal lengths; 3 thirty-three jobs, long unequal lengths */
static int
run_once(const char *kind, int shape, uint64_t seed, uint64_t salt, run_t *out)
{
        static hx_job js[MAXJ];
        const int n = shape == 0 ? 1 : shape == 1 ? 5 : shape == 2 ? 17 : 33;
        memset(mem, 0, msz);
        ga_reset();
        IMB_MGR *M = imb_set_pointers_mb_mgr(mem, V->flags, 1);
        if (!M)
                return -1;
        hx_mgr_init(M, V);
        if (M->imb_errno != 0 || M->submit_job == NULL)
                return -1;
        ooo_table(M);
        hx_key_salt = salt;
        hx_rng g;
        hx_seed(&g, seed);
        hx_len_long = shape == 3;
        long flen = -1;
        out->npub = 0;
        int sig = sigsetjmp(hx_fault_jmp, 1);
        if (sig != 0) {
                alarm(0);
                hx_key_salt = 0;
                hx_len_long = 0;
                return -sig;
        }
        alarm(60);
        for (int i = 0; i < n; i++) {
                hx_spec sp;
                hx_force_len = shape == 1 ? flen : -1;
                if (!hx_spec_from_kind(kind, &g, &sp))
                        return -2;
                if (shape == 1 && flen < 0)
                        flen = sp.len ? sp.len : sp.hlen;
                sp.placement = GA_SLACK;
                sp.cfail = 0;
                if (hx_job_build(M, &sp, i + 1, &js[i]) != 0)
                        return -3;
                IMB_JOB *slot = (IMB_JOB *) hx_call((void *) M->get_next_job, 1, (uint64_t) M);
                hx_job_to_slot(&js[i], slot);
                (void) hx_call((void *) M->submit_job, 1, (uint64_t) M);
        }
        hx_force_len = -1;
        hx_len_long = 0;
        while (hx_call((void *) M->flush_job, 1, (uint64_t) M) != 0)
                ;
        alarm(0);
        /* the last call returned NULL with nothing in flight: quiescent */
        memcpy(out->vec, hx_last_tr.vec, sizeof(out->vec));
        memcpy(out->gpr, hx_last_tr.gpr, sizeof(out->gpr));
        if (hx_last_tr.stack_copy)
                memcpy(out->stack, hx_last_tr.stack_copy, HX_STACK_SCAN);
        memcpy(out->snap, mem, msz);
        for (int i = 0; i < n; i++) {
                pub_add(out, js[i].dst, js[i].dst_size);
                pub_add(out, js[i].tag, js[i].sp.taglen);
                if (js[i].src_written_ok)
                        pub_add(out, js[i].src, js[i].src_size);
                hx_job_free(&js[i]);
        }
        hx_key_salt = 0;
        return 0;
}

/* Differing bytes between the two runs, grouped into spans (gaps of up to 3 coinciding bytes are bridged: two key-dependent
 * byte strings agree in one position out of 256).  A span is public when the same offset of the concatenated public outputs
 * of run A holds exactly A's bytes and that of run B exactly B's (ciphertext / tag left in a lane's chaining or block buffer).
 * Returns the number of bytes in spans that are not public; *first = offset of the first such span. */
static long
diff_windows(const uint8_t *a, const uint8_t *b, size_t n, const run_t *ra, const run_t *rb, long *first)
{
        long cnt = 0;
        *first = -1;
        size_t o = 0;
        while (o < n) {
                if (a[o] == b[o]) {
                        o++;
                        continue;
                }
                size_t s = o, e = o + 1, gap = 0;
                for (size_t k = o + 1; k < n && gap <= 3; k++) {
                        if (a[k] != b[k]) {
                                e = k + 1;
                                gap = 0;
                        } else
                                gap++;
                }
                const size_t len = e - s;
                int pub = 0;
                if (ra->npub >= len && ra->npub == rb->npub) {
                        const uint8_t *p = ra->pub;
                        size_t left = ra->npub;
                        while (!pub && left >= len) {
                                const uint8_t *q = memmem(p, left, a + s, len);
                                if (!q)
                                        break;
                                if (memcmp(rb->pub + (q - ra->pub), b + s, len) == 0)
                                        pub = 1;
                                left -= (size_t) (q - p) + 1;
                                p = q + 1;
                        }
                }
                if (!pub) {
                        if (*first < 0)
                                *first = (long) s;
                        cnt += (long) len;
                        if (attribute) {
                                const char *nm = ooo_of(s);
                                int w;
                                for (w = 0; w < nwhere; w++)
                                        if (where[w].name == nm)
                                                break;
                                if (w == nwhere && nwhere < 64) {
                                        where[nwhere].name = nm;
                                        where[nwhere].cnt = 0;
                                        nwhere++;
                                }
                                if (w < 64)
                                        where[w].cnt += (long) len;
                        }
                }
                o = e;
        }
        return cnt;
}

int
drv_keydiff(int argc, char **argv)
{
        const char *out = NULL, *variant = "sse_t1", *kinds = NULL;
        uint64_t seed = 1;
        for (int i = 0; i < argc; i++) {
                if (!strcmp(argv[i], "--out"))
                        out = argv[++i];
                else if (!strcmp(argv[i], "--variant"))
                        variant = argv[++i];
                else if (!strcmp(argv[i], "--kinds"))
                        kinds = argv[++i];
                else if (!strcmp(argv[i], "--seed"))
                        seed = strtoull(argv[++i], NULL, 0);
        }
        hx_trace = out ? fopen(out, "w") : stdout;
        V = hx_variant_by_name(variant);
        if (!V)
                return 2;
        msz = imb_get_mb_mgr_size();
        if (posix_memalign((void **) &mem, 64, msz) != 0)
                return 2;
        run_t A, B;
        memset(&A, 0, sizeof(A));
        memset(&B, 0, sizeof(B));
        A.snap = malloc(msz);
        B.snap = malloc(msz);
        hx_dump_regs = 1;
        hx_full_tags = 1;
        const char *klist[256];
        int nk = 0;
        char kb[4096];
        if (kinds) {
                snprintf(kb, sizeof(kb), "%s", kinds);
                for (char *p = strtok(kb, ","); p && nk < 256; p = strtok(NULL, ","))
                        klist[nk++] = p;
        } else
                for (int i = 0; i < hx_nkinds; i++)
                        klist[nk++] = hx_kinds[i];
        for (int k = 0; k < nk; k++) {
                if (strstr(klist[k], "CUSTOM") || strstr(klist[k], "CRC") || !strcmp(klist[k], "+SHA1") || !strcmp(klist[k], "+SHA224") ||
                    !strcmp(klist[k], "+SHA256") || !strcmp(klist[k], "+SHA384") || !strcmp(klist[k], "+SHA512") || !strcmp(klist[k], "+SM3"))
                        continue; /* no key */
                for (int shape = 0; shape < 4; shape++) {
                        const uint64_t s = seed * 1000003u + (uint64_t) k * 131u + (uint64_t) shape;
                        int ra = run_once(klist[k], shape, s, 0x1111111111111111ull, &A);
                        int rb = run_once(klist[k], shape, s, 0x2222222222222222ull, &B);
                        long f1 = -1, f2 = -1, f3 = -1, f4 = -1;
                        long dm = 0, dv = 0, dg = 0, ds = 0;
                        if (ra == 0 && rb == 0) {
                                nwhere = 0;
                                attribute = 1;
                                dm = diff_windows(A.snap, B.snap, msz, &A, &B, &f1);
                                attribute = 0;
                                dv = diff_windows(A.vec, B.vec, sizeof(A.vec), &A, &B, &f2);
                                dg = diff_windows((const uint8_t *) A.gpr, (const uint8_t *) B.gpr, sizeof(A.gpr), &A, &B, &f3);
                                ds = diff_windows(A.stack, B.stack, HX_STACK_SCAN, &A, &B, &f4);
                        }
                        nitems++;
                        tr_begin("KeyDiff");
                        tr_str("variant", V->name);
                        tr_str("kind", klist[k]);
                        tr_int("shape", shape);
                        tr_int("ra", ra);
                        tr_int("rb", rb);
                        tr_int("mgr", dm);
                        tr_int("mgr_off", f1);
                        fprintf(hx_trace, ",\"mgrs\":[");
                        for (int w = 0; ra == 0 && rb == 0 && w < nwhere; w++)
                                fprintf(hx_trace, "%s\"%s\"", w ? "," : "", where[w].name);
                        fprintf(hx_trace, "]");
                        {
                                int cn[64];
                                for (int w = 0; w < nwhere; w++)
                                        cn[w] = (int) where[w].cnt;
                                tr_ints("cnts", cn, (ra == 0 && rb == 0) ? nwhere : 0);
                        }
                        tr_int("vec", dv);
                        tr_int("vec_off", f2);
                        tr_int("gpr", dg);
                        tr_int("stk", ds);
                        tr_int("stk_off", f4);
                        tr_end();
                }
        }
        tr_begin("KeyDiffEnd");
        tr_int("n", nitems);
        tr_end();
        fclose(hx_trace);
        fprintf(stderr, "{\"items\":%ld}\n", nitems);
        return 0;
}
