/* C09: the same work item through every entry point that supports its algorithm.
 *  - synchronous cipher / hash / AEAD bursts (sizes below, at and above the lane count, distinct data,
 *    unequal lengths) against the checked single-job API on a separate manager;
 *  - direct functions (GCM one-shot, GHASH, SHA one-shot, ZUC / SNOW3G / KASUMI 1..N buffer, CRC,
 *    single-block CFB) against the job API;
 *  - probe of the documented-as-known interaction: a synchronous burst issued while an asynchronous
 *    job of the same family is parked (KF-2).
 * Asynchronous burst and no-check submit are compared with the checked single-job API by the schedule
 * driver's run-alone oracle (profile mixed), run by the same check. */
#define _GNU_SOURCE
#include "hx.h"
#include <stdlib.h>
#include <string.h>
#include <unistd.h>

static IMB_MGR *M;
static const hx_variant *V;
static long nitems;
/* --guard 1 (C07): jobs are built with their objects flush against inaccessible pages, the direct calls read the guarded
 * source objects and write into guarded destinations of exactly the message length */
static int g_guard, g_place = GA_SLACK;
#define IN_OF(j) ((g_guard && !(j)->sp.inplace && !(j)->src_written_ok) ? (const uint8_t *) (j)->src : (const uint8_t *) (j)->src_snapshot)
/* a fault inside a direct library call is the library's (hx_in_call tells the signal handler) */
#define LIBCALL(x)                                                                                     \
        do {                                                                                           \
                hx_in_call = g_guard;                                                                  \
                x;                                                                                     \
                hx_in_call = 0;                                                                        \
        } while (0)
/* direct calls of up to six arguments go through the register-checking trampoline (C18) */
#define A64(x) ((uint64_t) (x))
#define HXM1(a) A64(a)
#define HXM2(a, b) A64(a), A64(b)
#define HXM3(a, b, c) A64(a), A64(b), A64(c)
#define HXM4(a, b, c, d) A64(a), A64(b), A64(c), A64(d)
#define HXM5(a, b, c, d, e) A64(a), A64(b), A64(c), A64(d), A64(e)
#define HXM6(a, b, c, d, e, f) A64(a), A64(b), A64(c), A64(d), A64(e), A64(f)
#define HXC_SEL(_1, _2, _3, _4, _5, _6, NAME, ...) NAME
#define HXC_CNT(...) HXC_SEL(__VA_ARGS__, 6, 5, 4, 3, 2, 1)
#define HXC(fn, ...) hx_call((void *) (M->fn), HXC_CNT(__VA_ARGS__), HXC_SEL(__VA_ARGS__, HXM6, HXM5, HXM4, HXM3, HXM2, HXM1)(__VA_ARGS__))
#define LIBVAL(x)                                                                                      \
        ({                                                                                             \
                hx_in_call = g_guard;                                                                  \
                __typeof__(x) v_ = (x);                                                                \
                hx_in_call = 0;                                                                        \
                v_;                                                                                    \
        })
static void *
out_alloc(size_t n)
{
        if (!g_guard)
                return calloc(1, n + 64);
        return ga_alloc(n ? n : 1, 1, g_place, "direct_out", 0);
}
static void
out_free(void *p)
{
        if (!g_guard)
                free(p);
}

static void
guard_fail(const char *what, int sig)
{
        tr_begin("EntryFault");
        tr_str("what", what);
        tr_int("sig", sig);
        tr_end();
        free_mb_mgr(M);
        M = hx_mgr_new(V);
}

/* ---------- synchronous bursts ---------- */
static void
sync_burst(const char *kind, int n, hx_rng *g)
{
        static IMB_JOB arr[IMB_MAX_BURST_SIZE];
        static hx_job js[IMB_MAX_BURST_SIZE];
        hx_spec sp0;
        if (!hx_spec_from_kind(kind, g, &sp0))
                return;
        const int is_hash = sp0.cm == IMB_CIPHER_NULL, is_aead = sp0.cm == IMB_CIPHER_CCM;
        for (int i = 0; i < n; i++) {
                hx_spec sp;
                hx_spec_from_kind(kind, g, &sp);
                sp.placement = GA_SLACK;
                hx_job_build(M, &sp, i, &js[i]);
                memset(&arr[i], 0, sizeof(arr[i]));
                hx_job_to_slot(&js[i], &arr[i]);
        }
        int sig = sigsetjmp(hx_fault_jmp, 1);
        if (sig != 0) {
                alarm(0);
                guard_fail(kind, sig);
                goto out;
        }
        alarm(30);
        uint32_t r;
        /* odd burst sizes go through the no-check entry points */
        const int nocheck = (n & 1) && n > 1;
        if (is_hash)
                r = (uint32_t) hx_call(nocheck ? (void *) M->submit_hash_burst_nocheck : (void *) M->submit_hash_burst, 4, (uint64_t) M, (uint64_t) arr, (uint64_t) n,
                                       (uint64_t) sp0.ha);
        else if (is_aead)
                r = (uint32_t) hx_call(nocheck ? (void *) M->submit_aead_burst_nocheck : (void *) M->submit_aead_burst, 6, (uint64_t) M, (uint64_t) arr, (uint64_t) n,
                                       (uint64_t) sp0.cm, (uint64_t) sp0.dir, (uint64_t) sp0.kl);
        else
                r = (uint32_t) hx_call(nocheck ? (void *) M->submit_cipher_burst_nocheck : (void *) M->submit_cipher_burst, 6,
                                       (uint64_t) M, (uint64_t) arr, (uint64_t) n,
                                       (uint64_t) sp0.cm, (uint64_t) sp0.dir, (uint64_t) sp0.kl);
        alarm(0);
        int err = M->imb_errno;
        int ncomp = 0, nbad = 0;
        for (int i = 0; i < n; i++) {
                if (arr[i].status == IMB_STATUS_COMPLETED)
                        ncomp++;
                hx_job twin;
                int st = hx_run_alone(V, &js[i].sp, &twin);
                if (st != (int) arr[i].status || hx_job_cmp_out(&js[i], &twin) != 0)
                        nbad++;
                hx_job_free(&twin);
        }
        uint32_t q = IMB_QUEUE_SIZE(M);
        int fl_null = IMB_FLUSH_JOB(M) == NULL;
        nitems += n;
        tr_begin("SyncBurst");
        tr_str("variant", V->name);
        tr_str("kind", kind);
        tr_int("n", n);
        tr_int("ret", r);
        tr_int("errno", err);
        tr_int("ncompleted", ncomp);
        tr_int("nbad", nbad);
        tr_int("qsz_after", q);
        tr_int("flush_null", fl_null);
        tr_int("abi", (long long) hx_abi_viol_bits);
        tr_end();
out:
        for (int i = 0; i < n; i++)
                hx_job_free(&js[i]);
        ga_reset();
}

/* ---------- direct functions vs the job API ---------- */
static int
job_result(const char *kind, hx_spec *sp, hx_job *j)
{
        (void) kind;
        sp->placement = g_place;
        if (hx_job_build(M, sp, 1, j) != 0)
                return -100;
        IMB_JOB *slot = IMB_GET_NEXT_JOB(M);
        hx_job_to_slot(j, slot);
        IMB_JOB *r = IMB_SUBMIT_JOB(M);
        if (!r)
                r = IMB_FLUSH_JOB(M);
        return r ? (int) r->status : -1;
}

static void
log_direct(const char *fn, const char *kind, int n, int same, int st)
{
        nitems++;
        tr_begin("Direct");
        tr_str("variant", V->name);
        tr_str("fn", fn);
        tr_str("kind", kind);
        tr_int("n", n);
        tr_int("job_st", st);
        tr_int("same", same);
        tr_int("abi", (long long) hx_abi_viol_bits);
        tr_end();
}

/* ---------- QUIC helpers: packets of one connection through one call vs one job per packet ---------- */
#include <openssl/evp.h>
static void
quic_all(hx_rng *g, int reps)
{
        static const int npk[] = { 1, 2, 3, 4, 7, 8, 9, 16, 17, 33 };
        for (int it = 0; it < reps * 2; it++) {
                int sig = sigsetjmp(hx_fault_jmp, 1);
                if (sig != 0) {
                        alarm(0);
                        guard_fail("quic", sig);
                        ga_reset();
                        continue;
                }
                alarm(30);
                const int n = npk[it % 10];
                /* --- imb_quic_aes_gcm / imb_quic_chacha20_poly1305: same key, 12-byte IVs, one AAD length --- */
                for (int alg = 0; alg < 2; alg++) {
                        const char *kind = alg ? ((it & 1) ? "CHAPOLYE" : "CHAPOLYD")
                                               : (it % 4 == 0 ? "GCM128E" : it % 4 == 1 ? "GCM256E" : it % 4 == 2 ? "GCM128D" : "GCM256D");
                        static hx_job js[40];
                        hx_spec sp0;
                        void *dst[40], *tag[40];
                        const void *src[40], *iv[40], *aad[40];
                        uint64_t len[40];
                        int st = IMB_STATUS_COMPLETED;
                        hx_spec_from_kind(kind, g, &sp0);
                        const uint32_t aadlen = 1 + hx_below(g, 40);
                        uint8_t key0[64];
                        for (int i = 0; i < n; i++) {
                                hx_spec sp;
                                hx_spec_from_kind(kind, g, &sp);
                                sp.ivlen = 12;
                                sp.aadlen = aadlen;
                                sp.taglen = 16;
                                sp.inplace = 0;
                                sp.coff = 0;
                                sp.hoff = 0;
                                if (sp.len > 1500)
                                        sp.len = 1 + sp.len % 1500;
                                sp.hlen = sp.len;
                                sp.placement = GA_SLACK;
                                hx_job_build(M, &sp, i, &js[i]);
                                if (i == 0)
                                        memcpy(key0, js[0].rawkey, 64);
                        }
                        /* one connection: every packet under the key of packet 0 */
                        for (int i = 0; i < n; i++) {
                                js[i].tmpl.enc_keys = js[0].tmpl.enc_keys;
                                js[i].tmpl.dec_keys = js[0].tmpl.dec_keys;
                                IMB_JOB *slot = IMB_GET_NEXT_JOB(M);
                                hx_job_to_slot(&js[i], slot);
                                IMB_JOB *r = IMB_SUBMIT_JOB(M);
                                if (!r)
                                        r = IMB_FLUSH_JOB(M);
                                if (!r || r->status != IMB_STATUS_COMPLETED)
                                        st = r ? (int) r->status : -1;
                                src[i] = IN_OF(&js[i]);
                                iv[i] = js[i].iv;
                                aad[i] = js[i].aad;
                                len[i] = js[i].sp.len;
                                dst[i] = ga_alloc(js[i].sp.len ? js[i].sp.len : 1, 1, GA_END, "q_dst", i);
                                tag[i] = ga_alloc(16, 1, GA_END, "q_tag", i);
                        }
                        /* (more than six arguments: called directly, not through the register-checking trampoline) */
                        hx_in_call = 1;
                        if (alg == 0)
                                imb_quic_aes_gcm(M, (const struct gcm_key_data *) js[0].tmpl.enc_keys, (IMB_KEY_SIZE_BYTES) sp0.kl,
                                                 (IMB_CIPHER_DIRECTION) sp0.dir, dst, src, len, iv, aad, aadlen, tag, 16, (uint64_t) n);
                        else
                                imb_quic_chacha20_poly1305(M, js[0].tmpl.enc_keys, (IMB_CIPHER_DIRECTION) sp0.dir, dst, src, len, iv,
                                                           aad, aadlen, tag, (uint64_t) n);
                        hx_in_call = 0;
                        int same = imb_get_errno(M) == 0, dbg = same ? 0 : 4;
                        for (int i = 0; i < n; i++) {
                                if (len[i] && memcmp(dst[i], js[i].dst, len[i]) != 0)
                                        same = 0, dbg |= 1;
                                if (memcmp(tag[i], js[i].tag, 16) != 0)
                                        same = 0, dbg |= 2;
                        }
                        const ga_obj *bad = NULL;
                        if (ga_check_canaries(&bad))
                                same = 0;
                        if (dbg && getenv("HX_DEBUG"))
                                fprintf(stderr, "quic %s n=%d dbg=%d errno=%d\n", kind, n, dbg, imb_get_errno(M));
                        log_direct(alg ? "quic_chacha20_poly1305" : "quic_aes_gcm", kind, n, same, st);
                        for (int i = 0; i < n; i++)
                                hx_job_free(&js[i]);
                        ga_reset();
                }
                /* --- header protection masks: 5 bytes per 16-byte sample --- */
                {
                        uint8_t key[32], samples[40][16], mask[40][5], exp[40][5];
                        void *dp[40];
                        const void *sp_[40];
                        hx_fill(g, key, 32);
                        for (int i = 0; i < n; i++) {
                                hx_fill(g, samples[i], 16);
                                memset(mask[i], 0xEE, 5);
                                dp[i] = mask[i];
                                sp_[i] = samples[i];
                        }
                        /* AES-ECB of the sample, first 5 bytes (RFC 9001 5.4.3), against OpenSSL */
                        const int kl = (it & 1) ? 32 : 16;
                        DECLARE_ALIGNED(uint8_t ek[15 * 16], 16);
                        DECLARE_ALIGNED(uint8_t dk[15 * 16], 16);
                        if (kl == 16)
                                (void) HXC(keyexp_128, key, ek, dk);
                        else
                                (void) HXC(keyexp_256, key, ek, dk);
                        hx_call((void *) imb_quic_hp_aes_ecb, 6, (uint64_t) M, (uint64_t) ek, (uint64_t) dp, (uint64_t) sp_, (uint64_t) n,
                                (uint64_t) kl);
                        int same = imb_get_errno(M) == 0;
                        for (int i = 0; i < n; i++) {
                                uint8_t blk[32];
                                int ol = 0;
                                EVP_CIPHER_CTX *c = EVP_CIPHER_CTX_new();
                                EVP_EncryptInit_ex(c, kl == 16 ? EVP_aes_128_ecb() : EVP_aes_256_ecb(), NULL, key, NULL);
                                EVP_CIPHER_CTX_set_padding(c, 0);
                                EVP_EncryptUpdate(c, blk, &ol, samples[i], 16);
                                EVP_CIPHER_CTX_free(c);
                                memcpy(exp[i], blk, 5);
                                if (memcmp(mask[i], exp[i], 5) != 0)
                                        same = 0;
                        }
                        log_direct("quic_hp_aes_ecb", kl == 16 ? "ECB128E" : "ECB256E", n, same, IMB_STATUS_COMPLETED);
                        /* ChaCha20: counter = sample[0..3], nonce = sample[4..15], 5 bytes of key stream (RFC 9001 5.4.4) */
                        for (int i = 0; i < n; i++)
                                memset(mask[i], 0xEE, 5);
                        hx_call((void *) imb_quic_hp_chacha20, 5, (uint64_t) M, (uint64_t) key, (uint64_t) dp, (uint64_t) sp_, (uint64_t) n);
                        same = imb_get_errno(M) == 0;
                        for (int i = 0; i < n; i++) {
                                uint8_t zero[5] = { 0 }, ks[8];
                                int ol = 0;
                                EVP_CIPHER_CTX *c = EVP_CIPHER_CTX_new();
                                EVP_EncryptInit_ex(c, EVP_chacha20(), NULL, key, samples[i]); /* 16-byte IV = counter || nonce */
                                EVP_EncryptUpdate(c, ks, &ol, zero, 5);
                                EVP_CIPHER_CTX_free(c);
                                if (memcmp(mask[i], ks, 5) != 0)
                                        same = 0;
                        }
                        log_direct("quic_hp_chacha20", "CHACHA20E", n, same, IMB_STATUS_COMPLETED);
                }
                alarm(0);
        }
}

static void
direct_all(hx_rng *g, int reps)
{
        for (int it = 0; it < reps; it++) {
                hx_spec sp;
                hx_job j;
                int sig = sigsetjmp(hx_fault_jmp, 1);
                if (sig != 0) {
                        alarm(0);
                        guard_fail("direct", sig);
                        ga_reset();
                        continue;
                }
                alarm(30);
                /* --- AES-GCM one-shot --- */
                {
                        static const char *ks[] = { "GCM128E", "GCM192D", "GCM256E", "GCM128D" };
                        const char *kind = ks[it % 4];
                        hx_spec_from_kind(kind, g, &sp);
                        sp.ivlen = 12;
                        sp.inplace = 0;
                        int st = job_result(kind, &sp, &j);
                        uint8_t *out = out_alloc(sp.len), tag[16];
                        struct gcm_context_data ctx;
                        const struct gcm_key_data *gk = j.tmpl.enc_keys;
                        const uint8_t *in = IN_OF(&j) + sp.coff;
                        aes_gcm_enc_dec_t fn = sp.dir == IMB_DIR_ENCRYPT
                                                       ? (sp.kl == 16 ? M->gcm128_enc : sp.kl == 24 ? M->gcm192_enc : M->gcm256_enc)
                                                       : (sp.kl == 16 ? M->gcm128_dec : sp.kl == 24 ? M->gcm192_dec : M->gcm256_dec);
                        fn(gk, &ctx, out, in, sp.len, j.iv, j.aad, sp.aadlen, tag, sp.taglen);
                        int same = (sp.len == 0 || memcmp(out, j.dst, sp.len) == 0) && memcmp(tag, j.tag, sp.taglen) == 0;
                        log_direct("gcm_enc_dec", kind, 1, same, st);
                        out_free(out);
                        hx_job_free(&j);
                }
                /* --- GHASH --- */
                {
                        hx_spec_from_kind("+GHASH", g, &sp);
                        sp.taglen = 16;
                        int st = job_result("+GHASH", &sp, &j);
                        uint8_t tag[16];
                        memcpy(tag, j.tmpl.u.GHASH._init_tag, 16);
                        (void) HXC(ghash, j.tmpl.u.GHASH._key, IN_OF(&j) + sp.hoff, sp.hlen, tag, 16);
                        log_direct("ghash", "+GHASH", 1, memcmp(tag, j.tag, 16) == 0, st);
                        hx_job_free(&j);
                }
                /* --- SHA one-shot --- */
                {
                        static const char *ks[] = { "+SHA1", "+SHA224", "+SHA256", "+SHA384", "+SHA512" };
                        const char *kind = ks[it % 5];
                        hx_spec_from_kind(kind, g, &sp);
                        int st = job_result(kind, &sp, &j);
                        uint8_t dg[64];
                        hash_fn_t f = it % 5 == 0   ? M->sha1
                                      : it % 5 == 1 ? M->sha224
                                      : it % 5 == 2 ? M->sha256
                                      : it % 5 == 3 ? M->sha384
                                                    : M->sha512;
                        (void) hx_call((void *) f, 3, A64(IN_OF(&j) + sp.hoff), A64(sp.hlen), A64(dg));
                        log_direct("sha", kind, 1, memcmp(dg, j.tag, sp.taglen) == 0, st);
                        hx_job_free(&j);
                }
                /* --- CRC functions --- */
                {
                        static const char *ks[] = { "+CRC32ETH",  "+CRC32SCTP", "+CRC32WIMAX", "+CRC24LTEA",
                                                    "+CRC24LTEB", "+CRC16X25",  "+CRC16FP",    "+CRC11FP",
                                                    "+CRC10IUUP", "+CRC8WIMAX", "+CRC7FP",     "+CRC6IUUP" };
                        const int k = it % 12;
                        hx_spec_from_kind(ks[k], g, &sp);
                        int st = job_result(ks[k], &sp, &j);
                        crc32_fn_t f[] = { M->crc32_ethernet_fcs, M->crc32_sctp,      M->crc32_wimax_ofdma_data,
                                           M->crc24_lte_a,        M->crc24_lte_b,     M->crc16_x25,
                                           M->crc16_fp_data,      M->crc11_fp_header, M->crc10_iuup_data,
                                           M->crc8_wimax_ofdma_hcs, M->crc7_fp_header, M->crc6_iuup_header };
                        uint32_t c = (uint32_t) hx_call((void *) f[k], 2, A64(IN_OF(&j) + sp.hoff), A64(sp.hlen));
                        uint32_t t = (uint32_t) j.tag[0] | ((uint32_t) j.tag[1] << 8) | ((uint32_t) j.tag[2] << 16) |
                                     ((uint32_t) j.tag[3] << 24);
                        log_direct("crc", ks[k], 1, c == t, st);
                        hx_job_free(&j);
                }
                /* --- single-block CFB --- */
                {
                        hx_spec_from_kind("CFB128E", g, &sp);
                        sp.len = 16;
                        sp.inplace = 0;
                        int st = job_result("CFB128E", &sp, &j);
                        uint8_t out[16];
                        (void) HXC(aes128_cfb_one, out, IN_OF(&j) + sp.coff, j.iv, j.tmpl.enc_keys, 16);
                        log_direct("cfb_one", "CFB128E", 1, memcmp(out, j.dst, 16) == 0, st);
                        hx_job_free(&j);
                }
                /* --- ZUC-EEA3 1 / 4 / N buffers, EIA3 1 buffer --- */
                {
                        int n = (int[]){ 1, 3, 4, 5, 9, 17 }[it % 6];
                        hx_job zj[32];
                        const void *keys[32], *ivs[32], *srcs[32];
                        void *dsts[32];
                        uint32_t lens[32];
                        int st = IMB_STATUS_COMPLETED, same = 1;
                        for (int i = 0; i < n; i++) {
                                hx_spec_from_kind("ZUC128E", g, &sp);
                                sp.coff = 0;
                                sp.inplace = 0;
                                if (job_result("ZUC128E", &sp, &zj[i]) != IMB_STATUS_COMPLETED)
                                        st = -1;
                                keys[i] = zj[i].tmpl.enc_keys;
                                ivs[i] = zj[i].iv;
                                srcs[i] = IN_OF(&zj[i]);
                                dsts[i] = out_alloc(zj[i].sp.len);
                                lens[i] = zj[i].sp.len;
                        }
                        const void *keys2[32], *ivs2[32], *srcs2[32];
                        void *dsts2[32];
                        uint32_t lens2[32];
                        memcpy(keys2, keys, sizeof(keys2));
                        memcpy(ivs2, ivs, sizeof(ivs2));
                        memcpy(srcs2, srcs, sizeof(srcs2));
                        memcpy(dsts2, dsts, sizeof(dsts2));
                        memcpy(lens2, lens, sizeof(lens2));
                        if (n == 1)
                                (void) HXC(eea3_1_buffer, keys[0], ivs[0], srcs[0], dsts[0], lens[0]);
                        else if (n == 4)
                                (void) HXC(eea3_4_buffer, keys2, ivs2, srcs2, dsts2, lens2);
                        else
                                (void) HXC(eea3_n_buffer, keys2, ivs2, srcs2, dsts2, lens2, (uint32_t) n);
                        for (int i = 0; i < n; i++) {
                                if (memcmp(dsts[i], zj[i].dst, lens[i]) != 0)
                                        same = 0;
                                out_free(dsts[i]);
                                hx_job_free(&zj[i]);
                        }
                        log_direct(n == 1 ? "zuc_eea3_1" : n == 4 ? "zuc_eea3_4" : "zuc_eea3_n", "ZUC128E", n, same, st);
                        hx_spec_from_kind("+ZUCEIA3", g, &sp);
                        int st2 = job_result("+ZUCEIA3", &sp, &j);
                        uint32_t tag = 0;
                        (void) HXC(eia3_1_buffer, j.tmpl.u.ZUC_EIA3._key, j.tmpl.u.ZUC_EIA3._iv, IN_OF(&j) + sp.hoff, (uint32_t) j.tmpl.msg_len_to_hash_in_bits, &tag);
                        log_direct("zuc_eia3_1", "+ZUCEIA3", 1, memcmp(&tag, j.tag, 4) == 0, st2);
                        hx_job_free(&j);
                }
                /* --- SNOW3G F8 1 / N buffers (single key), F9 --- */
                {
                        int n = (int[]){ 1, 2, 4, 5, 8, 16 }[it % 6]; /* the n-buffer call takes at most 16 packets */
                        hx_job zj[32];
                        const void *ivs[32], *srcs[32];
                        void *dsts[32];
                        uint32_t lens[32];
                        int st = IMB_STATUS_COMPLETED, same = 1;
                        uint64_t kseed = hx_rand(g);
                        for (int i = 0; i < n; i++) {
                                hx_spec_from_kind("SNOW3GE", g, &sp);
                                sp.bitadj = 0;
                                sp.inplace = 0;
                                if (job_result("SNOW3GE", &sp, &zj[i]) != IMB_STATUS_COMPLETED)
                                        st = -1;
                                ivs[i] = zj[i].iv;
                                srcs[i] = IN_OF(&zj[i]);
                                dsts[i] = out_alloc(zj[i].sp.len);
                                lens[i] = zj[i].sp.len;
                        }
                        (void) kseed;
                        /* the N-buffer call takes one key: use each job's own key in a 1-buffer call when
                         * n == 1, otherwise re-run the jobs' inputs under the first job's key both ways */
                        if (n == 1) {
                                (void) HXC(snow3g_f8_1_buffer, zj[0].tmpl.enc_keys, ivs[0], srcs[0], dsts[0], lens[0]);
                                same = memcmp(dsts[0], zj[0].dst, lens[0]) == 0;
                        } else {
                                /* the n-buffer calls may reorder/advance the arrays they are given */
                                const void *ivs2[32], *srcs2[32];
                                void *dsts2[32];
                                uint32_t lens2[32];
                                memcpy(ivs2, ivs, sizeof(ivs2));
                                memcpy(srcs2, srcs, sizeof(srcs2));
                                memcpy(dsts2, dsts, sizeof(dsts2));
                                memcpy(lens2, lens, sizeof(lens2));
                                (void) HXC(snow3g_f8_n_buffer, zj[0].tmpl.enc_keys, ivs2, srcs2, dsts2, lens2, (uint32_t) n);
                                for (int i = 0; i < n; i++) {
                                        uint8_t *one = out_alloc(lens[i]);
                                        (void) HXC(snow3g_f8_1_buffer, zj[0].tmpl.enc_keys, ivs[i], srcs[i], one, lens[i]);
                                        if (memcmp(one, dsts[i], lens[i]) != 0)
                                                same = 0;
                                        out_free(one);
                                }
                                if (memcmp(dsts[0], zj[0].dst, lens[0]) != 0)
                                        same = 0;
                        }
                        for (int i = 0; i < n; i++) {
                                out_free(dsts[i]);
                                hx_job_free(&zj[i]);
                        }
                        log_direct(n == 1 ? "snow3g_f8_1" : "snow3g_f8_n", "SNOW3GE", n, same, st);
                        hx_spec_from_kind("+SNOW3GUIA2", g, &sp);
                        int st2 = job_result("+SNOW3GUIA2", &sp, &j);
                        uint8_t tag[4];
                        (void) HXC(snow3g_f9_1_buffer, j.tmpl.u.SNOW3G_UIA2._key, j.tmpl.u.SNOW3G_UIA2._iv, IN_OF(&j) + sp.hoff, j.tmpl.msg_len_to_hash_in_bits, tag);
                        log_direct("snow3g_f9_1", "+SNOW3GUIA2", 1, memcmp(tag, j.tag, 4) == 0, st2);
                        hx_job_free(&j);
                }
                /* --- KASUMI F8 1 / N buffers (single key), F9 --- */
                {
                        int n = (int[]){ 1, 2, 3, 4, 5, 9 }[it % 6];
                        hx_job zj[32];
                        uint64_t ivs[32];
                        const void *srcs[32];
                        void *dsts[32];
                        uint32_t lens[32];
                        int st = IMB_STATUS_COMPLETED, same = 1;
                        for (int i = 0; i < n; i++) {
                                hx_spec_from_kind("KASUMIE", g, &sp);
                                sp.bitadj = 0;
                                sp.inplace = 0;
                                if (job_result("KASUMIE", &sp, &zj[i]) != IMB_STATUS_COMPLETED)
                                        st = -1;
                                memcpy(&ivs[i], zj[i].iv, 8);
                                srcs[i] = IN_OF(&zj[i]);
                                dsts[i] = out_alloc(zj[i].sp.len);
                                lens[i] = zj[i].sp.len;
                        }
                        if (n == 1) {
                                (void) HXC(f8_1_buffer, zj[0].tmpl.enc_keys, ivs[0], srcs[0], dsts[0], lens[0]);
                                same = memcmp(dsts[0], zj[0].dst, lens[0]) == 0;
                        } else {
                                uint64_t ivs2[32];
                                const void *srcs2[32];
                                void *dsts2[32];
                                uint32_t lens2[32];
                                memcpy(ivs2, ivs, sizeof(ivs2));
                                memcpy(srcs2, srcs, sizeof(srcs2));
                                memcpy(dsts2, dsts, sizeof(dsts2));
                                memcpy(lens2, lens, sizeof(lens2));
                                (void) HXC(f8_n_buffer, zj[0].tmpl.enc_keys, ivs2, srcs2, dsts2, lens2, (uint32_t) n);
                                for (int i = 0; i < n; i++) {
                                        uint8_t *one = out_alloc(lens[i]);
                                        (void) HXC(f8_1_buffer, zj[0].tmpl.enc_keys, ivs[i], srcs[i], one, lens[i]);
                                        if (memcmp(one, dsts[i], lens[i]) != 0)
                                                same = 0;
                                        out_free(one);
                                }
                                if (memcmp(dsts[0], zj[0].dst, lens[0]) != 0)
                                        same = 0;
                        }
                        for (int i = 0; i < n; i++) {
                                out_free(dsts[i]);
                                hx_job_free(&zj[i]);
                        }
                        log_direct(n == 1 ? "kasumi_f8_1" : "kasumi_f8_n", "KASUMIE", n, same, st);
                        hx_spec_from_kind("+KASUMIUIA1", g, &sp);
                        int st2 = job_result("+KASUMIUIA1", &sp, &j);
                        uint8_t tag[4];
                        (void) HXC(f9_1_buffer, j.tmpl.u.KASUMI_UIA1._key, IN_OF(&j) + sp.hoff, sp.hlen, tag);
                        log_direct("kasumi_f9_1", "+KASUMIUIA1", 1, memcmp(tag, j.tag, 4) == 0, st2);
                        hx_job_free(&j);
                }
                alarm(0);
                ga_reset();
        }
}

/* ---------- n-buffer direct calls in structured length regimes, and the direct calls direct_all() leaves out ---------- */
/* lengths of one n-buffer group: regime 0 random, 1 all equal, 2 shortest is a whole number of `unit` bytes and the rest
 * are longer (the common part ends exactly on a chunk boundary of the multi-buffer kernels), 3 ascending by one unit */
static void
nbuf_lens(hx_rng *g, int regime, int n, uint32_t unit, uint32_t maxlen, uint32_t *len)
{
        const uint32_t base = unit * (1 + hx_below(g, 6));
        const int shortest = hx_below(g, n);
        for (int i = 0; i < n; i++) {
                uint32_t v;
                switch (regime) {
                case 1:
                        v = base + 3;
                        break;
                case 2:
                        v = i == shortest ? base : base + 1 + hx_below(g, 5 * unit);
                        break;
                case 3:
                        v = base + (uint32_t) i * unit;
                        break;
                case 5: /* all equal, near the maximum */
                        v = maxlen - unit;
                        break;
                case 4: /* towards the documented maximum of the algorithm (wide block counters, long key streams) */
                        v = maxlen - hx_below(g, maxlen / 5);
                        if (i == shortest)
                                v = maxlen - maxlen / 5 - unit * (1 + hx_below(g, 4));
                        break;
                default:
                        v = 1 + hx_below(g, maxlen < 700 ? maxlen : 700);
                }
                len[i] = v > maxlen ? maxlen : v;
        }
}

static void
nbuf_all(hx_rng *g, int reps)
{
        static const int ns[] = { 1, 2, 3, 4, 5, 7, 8, 9, 15, 16, 17, 24, 31 };
        static const uint32_t units[] = { 4, 8, 16, 32, 64 };
        hx_spec sp;
        for (int it = 0; it < reps * 13; it++) {
                int sig = sigsetjmp(hx_fault_jmp, 1);
                if (sig != 0) {
                        alarm(0);
                        guard_fail("nbuf", sig);
                        ga_reset();
                        continue;
                }
                alarm(60);
                const int n = ns[it % 13], regime = (it / 13) % 5;
                const uint32_t unit = units[(it / 52 + it) % 5];
                uint32_t want[32];
                hx_job zj[32];
                /* --- ZUC-EIA3 n buffers: one call against one job per buffer and the 1-buffer call --- */
                {
                        const void *keys[32], *ivs[32], *srcs[32];
                        uint32_t bits[32], tags[32], *tagp[32];
                        int st = IMB_STATUS_COMPLETED, same = 1;
                        nbuf_lens(g, regime, n, unit, 8188, want);
                        for (int i = 0; i < n; i++) {
                                hx_force_len = want[i];
                                hx_spec_from_kind("+ZUCEIA3", g, &sp);
                                hx_force_len = -1;
                                if (regime)
                                        sp.bitadj = 0;
                                if (job_result("+ZUCEIA3", &sp, &zj[i]) != IMB_STATUS_COMPLETED)
                                        st = -1;
                                keys[i] = zj[i].tmpl.u.ZUC_EIA3._key;
                                ivs[i] = zj[i].tmpl.u.ZUC_EIA3._iv;
                                srcs[i] = IN_OF(&zj[i]) + zj[i].sp.hoff;
                                bits[i] = (uint32_t) zj[i].tmpl.msg_len_to_hash_in_bits;
                                tags[i] = 0;
                                tagp[i] = g_guard ? (uint32_t *) ga_alloc(4, 4, g_place, "direct_tag", 0) : &tags[i];
                        }
                        (void) HXC(eia3_n_buffer, keys, ivs, srcs, bits, tagp, (uint32_t) n);
                        for (int i = 0; i < n; i++) {
                                uint32_t one = 0;
                                tags[i] = *tagp[i];
                                (void) HXC(eia3_1_buffer, zj[i].tmpl.u.ZUC_EIA3._key, zj[i].tmpl.u.ZUC_EIA3._iv, IN_OF(&zj[i]) + zj[i].sp.hoff, bits[i], &one);
                                if (memcmp(&tags[i], zj[i].tag, 4) != 0 || one != tags[i]) {
                                        same = 0;
                                        if (getenv("NBUF_DEBUG")) {
                                                fprintf(stderr, "eia3_n mismatch n=%d regime=%d i=%d bits=%u nbuf=%08x job=%02x%02x%02x%02x one=%08x | all bits:", n, regime, i, bits[i], tags[i], zj[i].tag[0], zj[i].tag[1], zj[i].tag[2], zj[i].tag[3], one);
                                                for (int q = 0; q < n; q++)
                                                        fprintf(stderr, " %u", bits[q]);
                                                fprintf(stderr, "\n");
                                        }
                                }
                                hx_job_free(&zj[i]);
                        }
                        log_direct("zuc_eia3_n", "+ZUCEIA3", n, same, st);
                }
                /* --- ZUC-EEA3 n buffers --- */
                {
                        const void *keys[32], *ivs[32], *srcs[32];
                        void *dsts[32];
                        uint32_t lens[32];
                        int st = IMB_STATUS_COMPLETED, same = 1;
                        nbuf_lens(g, regime, n, unit, 8188, want);
                        for (int i = 0; i < n; i++) {
                                hx_force_len = want[i];
                                hx_spec_from_kind("ZUC128E", g, &sp);
                                hx_force_len = -1;
                                sp.coff = 0;
                                sp.inplace = 0;
                                if (job_result("ZUC128E", &sp, &zj[i]) != IMB_STATUS_COMPLETED)
                                        st = -1;
                                keys[i] = zj[i].tmpl.enc_keys;
                                ivs[i] = zj[i].iv;
                                srcs[i] = IN_OF(&zj[i]);
                                lens[i] = zj[i].sp.len;
                                dsts[i] = out_alloc(lens[i]);
                        }
                        void *dkeep[32];
                        uint32_t lkeep[32];
                        memcpy(dkeep, dsts, sizeof(dkeep));
                        memcpy(lkeep, lens, sizeof(lkeep));
                        if (n == 4 && (it & 1))
                                (void) HXC(eea3_4_buffer, keys, ivs, srcs, dsts, lens);
                        else
                                (void) HXC(eea3_n_buffer, keys, ivs, srcs, dsts, lens, (uint32_t) n);
                        for (int i = 0; i < n; i++) {
                                if (memcmp(dkeep[i], zj[i].dst, lkeep[i]) != 0)
                                        same = 0;
                                out_free(dkeep[i]);
                                hx_job_free(&zj[i]);
                        }
                        log_direct("zuc_eea3_n_struct", "ZUC128E", n, same, st);
                }
                /* --- SNOW3G F8: 2 / 4 / 8 / n buffers under one key, 8 / n buffers with a key each --- */
                if (n <= 16) {
                        const void *ivs[32], *srcs[32], *keys[32];
                        void *dsts[32], *dmk[32];
                        uint32_t lens[32];
                        int st = IMB_STATUS_COMPLETED, same = 1, samemk = 1;
                        nbuf_lens(g, regime, n, unit, 8000, want);
                        for (int i = 0; i < n; i++) {
                                hx_force_len = want[i];
                                hx_spec_from_kind("SNOW3GE", g, &sp);
                                hx_force_len = -1;
                                sp.bitadj = 0;
                                sp.coff = 0;
                                sp.inplace = 0;
                                if (job_result("SNOW3GE", &sp, &zj[i]) != IMB_STATUS_COMPLETED)
                                        st = -1;
                                ivs[i] = zj[i].iv;
                                srcs[i] = IN_OF(&zj[i]);
                                keys[i] = zj[i].tmpl.enc_keys;
                                lens[i] = zj[i].sp.len;
                                dsts[i] = out_alloc(lens[i]);
                                dmk[i] = out_alloc(lens[i]);
                        }
                        const void *k0 = zj[0].tmpl.enc_keys;
                        const void *ivs2[32], *srcs2[32], *keys2[32];
                        void *dsts2[32];
                        uint32_t lens2[32];
                        memcpy(ivs2, ivs, sizeof(ivs2));
                        memcpy(srcs2, srcs, sizeof(srcs2));
                        memcpy(dsts2, dsts, sizeof(dsts2));
                        memcpy(lens2, lens, sizeof(lens2));
                        const char *fn = "snow3g_f8_n_struct";
                        if (n == 2) {
                                fn = "snow3g_f8_2";
                                LIBCALL(IMB_SNOW3G_F8_2_BUFFER(M, k0, ivs[0], ivs[1], srcs[0], dsts[0], lens[0], srcs[1], dsts[1], lens[1]));
                        } else if (n == 4) {
                                fn = "snow3g_f8_4";
                                LIBCALL(IMB_SNOW3G_F8_4_BUFFER(M, k0, ivs[0], ivs[1], ivs[2], ivs[3], srcs[0], dsts[0], lens[0], srcs[1], dsts[1],
                                                       lens[1], srcs[2], dsts[2], lens[2], srcs[3], dsts[3], lens[3]));
                        } else if (n == 8) {
                                fn = "snow3g_f8_8";
                                LIBCALL(IMB_SNOW3G_F8_8_BUFFER(M, k0, ivs[0], ivs[1], ivs[2], ivs[3], ivs[4], ivs[5], ivs[6], ivs[7], srcs[0],
                                                       dsts[0], lens[0], srcs[1], dsts[1], lens[1], srcs[2], dsts[2], lens[2], srcs[3],
                                                       dsts[3], lens[3], srcs[4], dsts[4], lens[4], srcs[5], dsts[5], lens[5], srcs[6],
                                                       dsts[6], lens[6], srcs[7], dsts[7], lens[7]));
                        } else
                                (void) HXC(snow3g_f8_n_buffer, k0, ivs2, srcs2, dsts2, lens2, (uint32_t) n);
                        for (int i = 0; i < n; i++) {
                                uint8_t *one = out_alloc(lens[i]);
                                (void) HXC(snow3g_f8_1_buffer, k0, ivs[i], srcs[i], one, lens[i]);
                                if (memcmp(one, dsts[i], lens[i]) != 0)
                                        same = 0;
                                out_free(one);
                        }
                        if (memcmp(dsts[0], zj[0].dst, lens[0]) != 0)
                                same = 0;
                        log_direct(fn, "SNOW3GE", n, same, st);
                        /* every buffer under its own key: equals the job of that buffer */
                        memcpy(ivs2, ivs, sizeof(ivs2));
                        memcpy(srcs2, srcs, sizeof(srcs2));
                        memcpy(dsts2, dmk, sizeof(dsts2));
                        memcpy(lens2, lens, sizeof(lens2));
                        memcpy(keys2, keys, sizeof(keys2));
                        if (n == 8)
                                (void) HXC(snow3g_f8_8_buffer_multikey, (const snow3g_key_schedule_t *const *) keys2, ivs2, srcs2, dsts2, lens2);
                        else
                                (void) HXC(snow3g_f8_n_buffer_multikey, (const snow3g_key_schedule_t *const *) keys2, ivs2, srcs2, dsts2, lens2, (uint32_t) n);
                        for (int i = 0; i < n; i++) {
                                if (memcmp(dmk[i], zj[i].dst, lens[i]) != 0)
                                        samemk = 0;
                                out_free(dsts[i]);
                                out_free(dmk[i]);
                                hx_job_free(&zj[i]);
                        }
                        log_direct(n == 8 ? "snow3g_f8_8_multikey" : "snow3g_f8_n_multikey", "SNOW3GE", n, samemk, st);
                }
                /* --- KASUMI F8: 2 buffers (own lengths), 3 / 4 buffers (one length), n buffers --- */
                if (n <= 16) {
                        uint64_t ivs[32];
                        const void *srcs[32];
                        void *dsts[32];
                        uint32_t lens[32];
                        int st = IMB_STATUS_COMPLETED, same = 1;
                        nbuf_lens(g, (n == 3 || n == 4) ? (regime == 4 ? 5 : 1) : regime, n, unit, 2500, want);
                        for (int i = 0; i < n; i++) {
                                hx_force_len = want[i];
                                hx_spec_from_kind("KASUMIE", g, &sp);
                                hx_force_len = -1;
                                sp.bitadj = 0;
                                sp.coff = 0;
                                sp.inplace = 0;
                                if (job_result("KASUMIE", &sp, &zj[i]) != IMB_STATUS_COMPLETED)
                                        st = -1;
                                memcpy(&ivs[i], zj[i].iv, 8);
                                srcs[i] = IN_OF(&zj[i]);
                                lens[i] = zj[i].sp.len;
                                dsts[i] = out_alloc(lens[i]);
                        }
                        const void *k0 = zj[0].tmpl.enc_keys;
                        uint64_t ivs2[32];
                        const void *srcs2[32];
                        void *dsts2[32];
                        uint32_t lens2[32];
                        memcpy(ivs2, ivs, sizeof(ivs2));
                        memcpy(srcs2, srcs, sizeof(srcs2));
                        memcpy(dsts2, dsts, sizeof(dsts2));
                        memcpy(lens2, lens, sizeof(lens2));
                        const char *fn = "kasumi_f8_n_struct";
                        if (n == 1) {
                                fn = "kasumi_f8_1_bit";
                                (void) HXC(f8_1_buffer_bit, k0, ivs[0], srcs[0], dsts[0], lens[0] * 8, 0);
                        } else if (n == 2) {
                                fn = "kasumi_f8_2";
                                LIBCALL(IMB_KASUMI_F8_2_BUFFER(M, k0, ivs[0], ivs[1], srcs[0], dsts[0], lens[0], srcs[1], dsts[1], lens[1]));
                        } else if (n == 3 && lens[0] == lens[1] && lens[1] == lens[2]) {
                                fn = "kasumi_f8_3";
                                LIBCALL(IMB_KASUMI_F8_3_BUFFER(M, k0, ivs[0], ivs[1], ivs[2], srcs[0], dsts[0], srcs[1], dsts[1], srcs[2], dsts[2],
                                                       lens[0]));
                        } else if (n == 4 && lens[0] == lens[1] && lens[1] == lens[2] && lens[2] == lens[3]) {
                                fn = "kasumi_f8_4";
                                LIBCALL(IMB_KASUMI_F8_4_BUFFER(M, k0, ivs[0], ivs[1], ivs[2], ivs[3], srcs[0], dsts[0], srcs[1], dsts[1], srcs[2],
                                                       dsts[2], srcs[3], dsts[3], lens[0]));
                        } else
                                (void) HXC(f8_n_buffer, k0, ivs2, srcs2, dsts2, lens2, (uint32_t) n);
                        for (int i = 0; i < n; i++) {
                                uint8_t *one = out_alloc(lens[i]);
                                (void) HXC(f8_1_buffer, k0, ivs[i], srcs[i], one, lens[i]);
                                if (memcmp(one, dsts[i], lens[i]) != 0)
                                        same = 0;
                                out_free(one);
                        }
                        if (memcmp(dsts[0], zj[0].dst, lens[0]) != 0)
                                same = 0;
                        for (int i = 0; i < n; i++) {
                                out_free(dsts[i]);
                                hx_job_free(&zj[i]);
                        }
                        log_direct(fn, "KASUMIE", n, same, st);
                }
                /* --- SNOW3G F8 bit-length call with whole bytes = the job --- */
                {
                        hx_job j;
                        hx_spec_from_kind("SNOW3GE", g, &sp);
                        sp.coff = 0;
                        sp.inplace = 0;
                        int st = job_result("SNOW3GE", &sp, &j);
                        uint8_t *out = out_alloc(sp.len);
                        (void) HXC(snow3g_f8_1_buffer_bit, j.tmpl.enc_keys, j.iv, IN_OF(&j), out, (uint32_t) j.tmpl.msg_len_to_cipher_in_bits, 0);
                        const uint32_t nb = (uint32_t) j.tmpl.msg_len_to_cipher_in_bits / 8, rem = (uint32_t) j.tmpl.msg_len_to_cipher_in_bits % 8;
                        int same = memcmp(out, j.dst, nb) == 0;
                        if (rem && ((out[nb] ^ j.dst[nb]) & (uint8_t) (0xff << (8 - rem))))
                                same = 0;
                        log_direct("snow3g_f8_1_bit", "SNOW3GE", 1, same, st);
                        out_free(out);
                        hx_job_free(&j);
                }
                /* --- GMAC init / update / finalize in pieces = the GMAC job --- */
                {
                        static const char *gk[] = { "+GMAC128", "+GMAC192", "+GMAC256" };
                        const int w = it % 3;
                        hx_job j;
                        hx_spec_from_kind(gk[w], g, &sp);
                        int st = job_result(gk[w], &sp, &j);
                        struct gcm_context_data ctx;
                        uint8_t tag[16] = { 0 };
                        const uint8_t *src = IN_OF(&j) + sp.hoff;
                        const uint64_t cut = sp.hlen ? hx_below(g, sp.hlen + 1) : 0;
                        const struct gcm_key_data *key = j.tmpl.u.GMAC._key;
                        if (w == 0) {
                                (void) HXC(gmac128_init, key, &ctx, j.tmpl.u.GMAC._iv, j.tmpl.u.GMAC.iv_len_in_bytes);
                                (void) HXC(gmac128_update, key, &ctx, src, cut);
                                (void) HXC(gmac128_update, key, &ctx, src + cut, sp.hlen - cut);
                                (void) HXC(gmac128_finalize, key, &ctx, tag, sp.taglen);
                        } else if (w == 1) {
                                (void) HXC(gmac192_init, key, &ctx, j.tmpl.u.GMAC._iv, j.tmpl.u.GMAC.iv_len_in_bytes);
                                (void) HXC(gmac192_update, key, &ctx, src, cut);
                                (void) HXC(gmac192_update, key, &ctx, src + cut, sp.hlen - cut);
                                (void) HXC(gmac192_finalize, key, &ctx, tag, sp.taglen);
                        } else {
                                (void) HXC(gmac256_init, key, &ctx, j.tmpl.u.GMAC._iv, j.tmpl.u.GMAC.iv_len_in_bytes);
                                (void) HXC(gmac256_update, key, &ctx, src, cut);
                                (void) HXC(gmac256_update, key, &ctx, src + cut, sp.hlen - cut);
                                (void) HXC(gmac256_finalize, key, &ctx, tag, sp.taglen);
                        }
                        log_direct("gmac_stream", gk[w], 2, memcmp(tag, j.tag, sp.taglen) == 0, st);
                        hx_job_free(&j);
                }
                /* --- AES-256-CFB one block --- */
                {
                        hx_job j;
                        hx_force_len = 16;
                        hx_spec_from_kind("CFB256E", g, &sp);
                        hx_force_len = -1;
                        int st = job_result("CFB256E", &sp, &j);
                        uint8_t out[16];
                        (void) HXC(aes256_cfb_one, out, IN_OF(&j) + sp.coff, j.iv, j.tmpl.enc_keys, 16);
                        log_direct("cfb256_one", "CFB256E", 1, memcmp(out, j.dst, 16) == 0, st);
                        hx_job_free(&j);
                }
                alarm(0);
                ga_reset();
        }
}

/* HEC of an XGEM header (ITU-T G.987.3 8.1.1.2 style): the last 13 bits are a BCH(63,12,2) remainder over the preceding
 * bits (generator x^12+x^10+x^8+x^5+x^4+x^3+1) and one even-parity bit; bit-serial reference */
static uint64_t
hec_ref(uint64_t hdr_be_value, int width)
{
        const uint64_t data = hdr_be_value >> 13; /* width-13 bits */
        uint32_t rem = 0;
        for (int b = width - 13 - 1; b >= 0; b--) {
                const uint32_t in = (uint32_t) ((data >> b) & 1);
                const uint32_t top = ((rem >> 11) & 1) ^ in;
                rem = (rem << 1) & 0xfff;
                if (top)
                        rem ^= 0x539; /* x^10+x^8+x^5+x^4+x^3+1 */
        }
        uint64_t v = (data << 13) | ((uint64_t) rem << 1);
        v |= (uint64_t) (__builtin_popcountll(v) & 1);
        return v;
}

static void
hec_all(hx_rng *g, int reps)
{
        for (int it = 0; it < reps * 40; it++) {
                uint8_t h8s[8], h4s[4];
                uint8_t *h8 = g_guard ? ga_alloc(8, 1, g_place, "hec_hdr64", 0) : h8s;
                uint8_t *h4 = g_guard ? ga_alloc(4, 1, g_place, "hec_hdr32", 0) : h4s;
                uint64_t r = hx_rand(g);
                if (it % 5 == 0)
                        r &= hx_rand(g) & hx_rand(g); /* sparse headers */
                memcpy(h8, &r, 8);
                memcpy(h4, &r, 4);
                uint64_t be8 = 0;
                uint32_t be4 = 0;
                for (int i = 0; i < 8; i++)
                        be8 = (be8 << 8) | h8[i];
                for (int i = 0; i < 4; i++)
                        be4 = (be4 << 8) | h4[i];
                const uint64_t want8 = hec_ref(be8, 64);
                const uint32_t want4 = (uint32_t) hec_ref(be4, 32);
                uint64_t got8 = ((__typeof__(IMB_HEC_64(M, h8))) HXC(hec_64, h8));
                uint32_t got4 = ((__typeof__(IMB_HEC_32(M, h4))) HXC(hec_32, h4));
                uint8_t w8[8], w4[4];
                for (int i = 0; i < 8; i++)
                        w8[i] = (uint8_t) (want8 >> (56 - 8 * i));
                for (int i = 0; i < 4; i++)
                        w4[i] = (uint8_t) (want4 >> (24 - 8 * i));
                log_direct("hec_64", "HEC", 1, memcmp(&got8, w8, 8) == 0, IMB_STATUS_COMPLETED);
                log_direct("hec_32", "HEC", 1, memcmp(&got4, w4, 4) == 0, IMB_STATUS_COMPLETED);
                if (g_guard)
                        ga_reset();
        }
        /* the PON encrypt job writes the same HEC into the XGEM header of its frame */
        for (int it = 0; it < reps * 4; it++) {
                hx_spec sp;
                hx_job j;
                hx_spec_from_kind("PONE", g, &sp);
                int st = job_result("PONE", &sp, &j);
                uint64_t got = ((__typeof__(IMB_HEC_64(M, IN_OF(&j) + sp.hoff))) HXC(hec_64, IN_OF(&j) + sp.hoff));
                log_direct("hec_64_vs_pon_job", "PONE", 1, memcmp(&got, j.src + sp.hoff, 8) == 0, st);
                hx_job_free(&j);
                ga_reset();
        }
}

/* one-block calls: the compression function from the initial state, against the low-level transforms of the reference */
#include <openssl/sha.h>
#include <openssl/md5.h>
#pragma GCC diagnostic push
#pragma GCC diagnostic ignored "-Wdeprecated-declarations"
static void
oneblock_all(hx_rng *g, int reps)
{
        for (int it = 0; it < reps * 6; it++) {
                uint8_t blk[128];
                for (int i = 0; i < 128; i += 8) {
                        uint64_t r = hx_rand(g);
                        memcpy(blk + i, &r, 8);
                }
                uint8_t out[64];
                int same;
                switch (it % 6) {
                case 0: {
                        SHA_CTX c;
                        SHA1_Init(&c);
                        SHA1_Transform(&c, blk);
                        uint32_t w[5] = { c.h0, c.h1, c.h2, c.h3, c.h4 };
                        (void) HXC(sha1_one_block, blk, out);
                        same = memcmp(out, w, 20) == 0;
                        log_direct("sha1_one_block", "+SHA1", 1, same, IMB_STATUS_COMPLETED);
                        break;
                }
                case 1: {
                        SHA256_CTX c;
                        SHA224_Init(&c);
                        SHA256_Transform(&c, blk);
                        (void) HXC(sha224_one_block, blk, out);
                        same = memcmp(out, c.h, 32) == 0;
                        log_direct("sha224_one_block", "+SHA224", 1, same, IMB_STATUS_COMPLETED);
                        break;
                }
                case 2: {
                        SHA256_CTX c;
                        SHA256_Init(&c);
                        SHA256_Transform(&c, blk);
                        (void) HXC(sha256_one_block, blk, out);
                        same = memcmp(out, c.h, 32) == 0;
                        log_direct("sha256_one_block", "+SHA256", 1, same, IMB_STATUS_COMPLETED);
                        break;
                }
                case 3: {
                        SHA512_CTX c;
                        SHA384_Init(&c);
                        SHA512_Transform(&c, blk);
                        (void) HXC(sha384_one_block, blk, out);
                        same = memcmp(out, c.h, 64) == 0;
                        log_direct("sha384_one_block", "+SHA384", 1, same, IMB_STATUS_COMPLETED);
                        break;
                }
                case 4: {
                        SHA512_CTX c;
                        SHA512_Init(&c);
                        SHA512_Transform(&c, blk);
                        (void) HXC(sha512_one_block, blk, out);
                        same = memcmp(out, c.h, 64) == 0;
                        log_direct("sha512_one_block", "+SHA512", 1, same, IMB_STATUS_COMPLETED);
                        break;
                }
                default: {
                        MD5_CTX c;
                        MD5_Init(&c);
                        MD5_Transform(&c, blk);
                        uint32_t w[4] = { c.A, c.B, c.C, c.D };
                        (void) HXC(md5_one_block, blk, out);
                        same = memcmp(out, w, 16) == 0;
                        log_direct("md5_one_block", "+HMACMD5", 1, same, IMB_STATUS_COMPLETED);
                        break;
                }
                }
        }
}
#pragma GCC diagnostic pop

/* ---------- KF-2 probe: synchronous burst while an asynchronous job of that family is parked ---------- */
static void
mix_probe(hx_rng *g)
{
        hx_spec spa, spb;
        hx_job ja, jb;
        hx_spec_from_kind("CBC128E+HMAC1", g, &spa);
        spa.placement = GA_SLACK;
        hx_job_build(M, &spa, 1, &ja);
        IMB_JOB *slot = IMB_GET_NEXT_JOB(M);
        hx_job_to_slot(&ja, slot);
        IMB_JOB *r = IMB_SUBMIT_JOB(M); /* parks in the AES-128-CBC lanes */
        hx_spec_from_kind("CBC128E", g, &spb);
        spb.placement = GA_SLACK;
        hx_job_build(M, &spb, 2, &jb);
        static IMB_JOB one[1];
        memset(one, 0, sizeof(one));
        hx_job_to_slot(&jb, &one[0]);
        uint32_t ret = 0;
        int parked = r == NULL;
        if (parked)
                ret = IMB_SUBMIT_CIPHER_BURST(M, one, 1, IMB_CIPHER_CBC, IMB_DIR_ENCRYPT, IMB_KEY_128_BYTES);
        int async_st = (int) slot->status;
        hx_job twin;
        hx_run_alone(V, &spa, &twin);
        IMB_JOB *f = IMB_FLUSH_JOB(M);
        int async_ok = f == slot && f->status == IMB_STATUS_COMPLETED && hx_job_cmp_out(&ja, &twin) == 0;
        tr_begin("MixSyncAsync");
        tr_str("variant", V->name);
        tr_int("parked", parked);
        tr_int("burst_ret", ret);
        tr_int("async_status_after_burst", async_st);
        tr_int("async_ok_after_flush", async_ok);
        tr_end();
        hx_job_free(&twin);
        hx_job_free(&ja);
        hx_job_free(&jb);
        while (IMB_FLUSH_JOB(M))
                ;
        free_mb_mgr(M);
        M = hx_mgr_new(V);
        ga_reset();
}

int
drv_entry(int argc, char **argv)
{
        const char *out = NULL, *variant = "avx2_t1";
        int reps = 12;
        uint64_t seed = 1;
        for (int i = 0; i < argc; i++) {
                if (!strcmp(argv[i], "--out"))
                        out = argv[++i];
                else if (!strcmp(argv[i], "--variant"))
                        variant = argv[++i];
                else if (!strcmp(argv[i], "--reps"))
                        reps = atoi(argv[++i]);
                else if (!strcmp(argv[i], "--guard"))
                        g_guard = atoi(argv[++i]);
                else if (!strcmp(argv[i], "--seed"))
                        seed = strtoull(argv[++i], NULL, 0);
        }
        hx_trace = out ? fopen(out, "w") : stdout;
        static char tbuf[1 << 20];
        setvbuf(hx_trace, tbuf, _IOFBF, sizeof(tbuf));
        V = hx_variant_by_name(variant);
        M = V ? hx_mgr_new(V) : NULL;
        if (!M)
                return 2;
        hx_rng g;
        hx_seed(&g, seed);
        static const char *burst_kinds[] = { "CBC128E", "CBC192E", "CBC256E", "CBC128D", "CBC192D", "CBC256D", "CTR128E", "CTR192E",
                                             "CTR256E", "CTR128D", "ECB128E", "ECB192E", "ECB256E", "ECB128D", "ECB192D", "ECB256D", "CFB128E", "CFB192E", "CFB256E",
                                             "CFB128D", "CFB256D", "CCM128E", "CCM128D", "CCM256E", "+HMAC1", "+HMAC224",
                                             "+HMAC256", "+HMAC384", "+HMAC512", "+SHA1", "+SHA224", "+SHA256", "+SHA384",
                                             "+SHA512", "+CMAC", "+CMACBIT", "+CMAC256" };
        static const int sizes[] = { 1, 2, 3, 4, 7, 8, 9, 15, 16, 17, 33, 128 };
        if (g_guard) {
                /* C07: the direct calls only, every object end-flush, then start-flush, against inaccessible pages */
                for (int pl = 0; pl < 2; pl++) {
                        g_place = pl ? GA_START : GA_END;
                        direct_all(&g, reps);
                        quic_all(&g, reps);
                        nbuf_all(&g, reps);
                        hec_all(&g, reps);
                }
                tr_begin("EntryDone");
                tr_int("items", nitems);
                tr_end();
                fclose(hx_trace);
                fprintf(stderr, "{\"items\":%ld,\"abi_viol\":%d}\n", nitems, hx_abi_viol_total);
                return 0;
        }
        for (unsigned k = 0; k < sizeof(burst_kinds) / sizeof(burst_kinds[0]); k++)
                for (unsigned s = 0; s < sizeof(sizes) / sizeof(sizes[0]); s++)
                        sync_burst(burst_kinds[k], sizes[s], &g);
        direct_all(&g, reps);
        quic_all(&g, reps);
        nbuf_all(&g, reps);
        hec_all(&g, reps);
        oneblock_all(&g, reps);
        mix_probe(&g);
        tr_begin("EntryDone");
        tr_int("items", nitems);
        tr_end();
        fclose(hx_trace);
        fprintf(stderr, "{\"items\":%ld,\"abi_viol\":%d}\n", nitems, hx_abi_viol_total);
        return 0;
}
