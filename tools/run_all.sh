#!/bin/bash
# run every claimed check's quick (or $1) tier on the current tree; summary at the end
T=${1:-quick}
cd /verif
ids=$(python3 -c "import json; print(' '.join(c['property_id'] for c in json.load(open('MANIFEST.json'))['checks']))")
for id in $ids; do
  s=$(date +%s); out=$(tools/vcheck $id --tier $T 2>&1); rc=$?; e=$(( $(date +%s) - s ))
  echo "$id rc=$rc ${e}s $(echo "$out" | grep -c VIOLATION) violation(s) $(echo "$out" | grep -c KNOWN-FINDING) known"
  [ $rc -ne 0 ] && echo "$out" | head -5
done
