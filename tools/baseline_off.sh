#!/bin/bash
# (clean rebuild: the Ninja build does not track NASM %include dependencies)
# Rebuild /repo/_build WITHOUT the verification guard (IMB_VERIF undefined) from the current working
# tree and run the pinned test suite exactly as the baseline does.
set -euo pipefail
B=/repo/_build
if [ ! -f "$B/build.ninja" ]; then
  cmake -G Ninja -S /repo -B "$B" -DCMAKE_BUILD_TYPE=RelWithDebInfo -DBUILD_TESTING=ON -DCMAKE_C_FLAGS=-Wno-error >/dev/null
fi
if grep -q "IMB_VERIF" "$B/CMakeCache.txt"; then echo "guard leaked into baseline build" >&2; exit 2; fi
cmake --build "$B" --clean-first -j"$(nproc)" > "$B/verif_rebuild.log" 2>&1 || { tail -30 "$B/verif_rebuild.log"; exit 2; }
ctest --test-dir "$B" -j8 --timeout 900 --no-tests=error --output-on-failure 2>&1 | tail -15
