#!/usr/bin/env python3
"""Generates /verif/MANIFEST.json from the table below (single source of truth for the interface)."""
import json, subprocess

hooks = subprocess.run(["git", "-C", "/repo", "log", "--format=%H %s"], capture_output=True, text=True).stdout.splitlines()
hook_commits = [l.split()[0] for l in hooks if "verif hook (guard IMB_VERIF)" in l]

CLAIMED = {
 "C05": ("model_checking",
         "TLC explores the level-A specification (spec/ImbMgr.tla: ring, single-job and burst API, error codes, re-init) exhaustively for a small ring and checks order/exactly-once/accounting/flush/offered-slot/full-queue invariants; every recorded execution of the real library at the real ring size is validated event by event against the same actions (spec/Trace_ImbMgr.tla), the model predicting ring indexes, hand-back order and statuses after every call. A directed profile fills the 256-slot ring through the single-job API (one parked job, 254/255 finished jobs behind it) and submits through the full-ring branch, checked and no-check.",
         "bounded exhaustive model (small ring), conformance by trace validation of random/model-shaped schedules at N=256; the harness's report of which jobs finished inside a call is trusted",
         "TLA+ model checking (TLC) + trace validation of recorded executions", "5 C05"),
 "C04": ("model_checking",
         "Schedules mixing >=6 suites with distinct data/keys/IVs per lane are executed on every variant; each handed-back job is compared with the same job run alone on a fresh manager; the comparison bit is a conjunct of the trace specification, which also replays the ring model so that the schedule context (what was in flight, what finished when) of every comparison is validated. Level B: spec/Ooo.tla and spec/Hmac.tla (lane machines mirroring the cipher and HMAC out-of-order managers) are model-checked for isolation (every cell written / every block absorbed belongs to the owning job, in order, once) and bound to the code by strict per-call fidelity runs (Trace_Ooo.tla); a directed lane-fill sweep visits every (suite, variant) with short and long unequal lengths.",
         "run-alone result of the same variant is the reference; exhaustive model bounds as for C05; level-B strict disagreement is model drift, not a violation",
         "TLA+ trace validation with run-alone differential oracle", "5 C04"),
 "C14": ("model_checking",
         "The level-A actions fix the error code after every call (0 on success, the call's own code on failure, mirrored process-wide) and the final status of every handed-back job; recorded executions are validated against that, together with a field-by-field descriptor comparison for every returned job and a sweep of imb_get_strerror over the integer classes. Failing manager-level calls (action BadCall of the specification: NULL burst array) are interleaved between IMB_GET_NEXT_JOB and the submit; the submit must reset the code whichever entry point is used.",
         "descriptor fields named by the property are compared; length fields are informational (the CMAC path rewrites msg_len_to_hash_in_bits)",
         "TLA+ trace validation (errno/status per call) + descriptor snapshots", "5 C14"),
 "C06": ("model_checking",
         "The whole finite product of suites (21 952 cells) is evaluated by TLC against the design-level dispatch properties (spec/Dispatch.tla: rows in range, row injectivity, AEAD-only-with-partner, stage-plan shape) and walked on the real library: for every cell, session acceptance and suite ids, job-API and burst-API execution with the stage hook recording each table dispatch, composition oracle and burst=job equality; spec/Trace_Dispatch.tla requires exactly the acceptance, error code, table rows and stage order the specification computes. Level B: spec/ChainOps.tla + Chain.tla model submit_new_job / RESUBMIT_JOB / complete_job over lane units (TLC: loops end, stage order, every unfinished job sits in the unit of its pending stage, each stage once); spec/Trace_Chain.tla composes it over the library's unit table (every out-of-order manager: AES-CBC/CFB/CBCS, DES/3DES, DOCSIS, ZUC-EEA3/EIA3, SNOW3G-UEA2/UIA2, HMAC-*, SHA-*, CMAC/XCBC/CCM, CUSTOM) and must predict call by call which jobs complete in mixed schedules over the whole catalogue (job and burst API).",
         "that the single-algorithm jobs equal the published algorithms is C01/C02; CUSTOM, PON and SGL suites are checked for acceptance/suite ids only",
         "exhaustive enumeration in TLC + trace validation of the per-cell walk (stage hook H1)", "5 C06"),
 "C07": ("exploration",
         "Every caller object of every executed job ends (or starts) flush against an inaccessible page; single-job sweep over all catalogue suites x every message length 0..N x both placements x variants plus random offsets/tag/AAD/IV lengths, with source snapshot, guard bytes and in-place twin; multi-job schedules run in the same arena and are validated by the trace specification with the memory conjuncts on. The direct calls (hash / CRC / HEC one-shots, ZUC / SNOW3G / KASUMI 1..n-buffer calls, GMAC streaming, QUIC helpers, one-block CFB) are walked with every object end-flush and start-flush against inaccessible pages (spec/Trace_Entry.tla with JudgeSame = FALSE: a fault inside a direct call has no action).",
         "over-reads that stay inside the last page of an object are invisible to the MMU; scheduler-level ranges are modelled in the level-B lane model",
         "guard-page exploration driven by the catalogue; TLA+ trace validation for the multi-job part", "5 C07"),
 "C08": ("model_checking",
         "Selection: spec/CpuSelect.tla (requirements per variant, flag adjustment, auto) is checked by TLC over all 2^15 feature-group subsets and every recorded selection of the real library under the feature-mask hook is validated against it (clean MISSING_CPUFLAGS failure: unbound manager, no self-test, no crash). Equality: cross-variant differential over the catalogue with cross-variant decryption.",
         "avx2_t3/t4 cannot run on this host; the differential part trusts no variant but cannot see a defect common to all",
         "TLC over the selection function + trace validation (hook H2); cross-variant differential", "5 C08"),
 "C18": ("exploration",
         "All manager entry points are called through an assembly trampoline that checks rbx, rbp, r12-r15, rsp, DF and MXCSR on return; single-job sweep over all suites/lengths/variants and multi-job schedules whose abi bit is a conjunct of the trace specification (submit that parks, submit that completes, flush at every occupancy, bursts); synchronous cipher/hash/AEAD bursts at sizes below/at/above every lane count and the direct functions of the entry driver on all seven variants.",
         "direct-API functions outside the entry driver's list are not wrapped",
         "ABI trampoline; TLA+ trace validation supplies the lane-state coverage", "5 C18"),
 "C20": ("fault_enumeration",
         "spec/SelfTest.tla models the KAT sequence, the START/CORRUPT/PASS|FAIL call-back protocol and the gate (pass bit and error code = conjunction of all results); TLC checks FailExactlyFaulted / GateIsConjunction / AnnouncesAll and termination for all fault sets of an abstract list; every recorded run of the real self-test (fault-free, every single entry, pairs, random subsets, 7 variants, explicit and auto init) must produce exactly the stream, bits and error code the specification yields, and the learned list must cover the documented algorithms.",
         "corruption can only be injected where the library makes the CORRUPT call-back",
         "TLA+ model checking + fault enumeration validated against the spec", "5 C20"),
 "C10": ("model_checking",
         "spec/Sgl.tla transcribes the streaming update logic of the ChaCha20-Poly1305 and GCM/GMAC contexts; TLC proves over all segmentations of bounded messages that the context is a function of the bytes consumed, that the authenticator is fed positions 0..L-1 exactly once in order and that each output byte uses the right keystream byte. Real sessions (all 2/3-segment partitions of short messages, random partitions up to 8 KiB/40 segments, direct calls, INIT/UPDATE/COMPLETE jobs, ALL jobs, both directions, all key sizes, all variants) are validated call by call against the model (public context fields) and must end with output and tag equal to the one-shot job.",
         "exhaustive part bounded to 140/70-byte messages; context-field mismatches without output divergence are reported as model drift",
         "TLA+ model checking (TLC) + per-call trace validation of public context structs", "5 C10"),
 "C12": ("model_checking",
         "spec/JobRules.tla is the constraint catalogue (per suite: field, value class, error code); TLC exports it and every element becomes one implementation test on every variant through the single-job and burst API (plus burst-call misuse: stale suite ids, NULL entry, out-of-order entry); spec/Trace_JobRules.tla requires accepted baseline, INVALID_ARGS with exactly the catalogue's code, untouched buffers, unchanged queue, unaffected follow-up job and full coverage of the catalogue. Suite-level acceptance over the full product is shared with C06's walk.",
         "single violations only; direct-API argument rules not yet in the catalogue",
         "TLA+ catalogue enumeration + one implementation test per model case", "5 C12"),
 "C15": ("model_checking",
         "InitMgr(m) is an action of ImbMgr.tla enabled in every state, so TLC's exhaustive exploration re-initialises after every prefix of the small-ring histories; on the real library random histories are cut at a random call, the manager is re-initialised in place (all old/new variant pairs its flags allow), the trace specification requires the pristine empty state, dropped jobs' buffers must never be written again, later jobs must equal their run-alone result, and the continuation must be event-for-event identical (returns, statuses, ring indexes, output digests) to the same continuation on a freshly allocated manager. The directed probe is a sweep: every (out-of-order family, variant) with the number of jobs in flight at the re-initialisation cycling below, at and above the lane counts.",
         "old and new variant share the allocation-time flags; the fresh-manager twin uses the same seeds",
         "TLA+ model checking + trace validation with a lock-step fresh-manager twin", "5 C15"),
 "C16": ("fault_enumeration",
         "Crash points are injected between API calls of random histories; the same process or a forked process (same addresses) re-attaches with imb_set_pointers_mb_mgr(reset=0); the model's Reattach action leaves every persistent variable unchanged, and the trace specification requires that the history continues unperturbed resp. that the re-attached process flushes every in-flight job in order, completed, with the run-alone result, finds the queue empty and the manager usable. Directed probes put 17..33 jobs of one suite in flight for every (suite, variant) pair before the re-attach.",
         "the exec'ed-process variant (different library load address) is not built yet; fork keeps the load address",
         "crash-point enumeration validated against the TLA+ Reattach action", "5 C16"),
 "C17": ("model_checking",
         "ImbMgr.tla is parameterised by a set of managers; TLC checks the ring invariants and the NonInterference action property (an action on one manager changes nothing of another, only the process-wide mirror) for two managers; on the real library three managers of random variants are interleaved in one thread and the trace is validated with Mgr = {0,1,2}; each manager's event sequence must equal the one it produces alone; 12 threads with own managers must reproduce their solo digests; per suite, 12 threads run that suite simultaneously in a tight loop on pre-built jobs and every run must reproduce the solo digest. The imb_get_errno() process-wide fallback is a recorded known finding.",
         "thread schedules are not controlled; known finding KF-1 listed in known_findings.json",
         "TLA+ model checking (non-interference) + trace validation of interleavings + thread differential", "5 C17"),
 "C01": ("exploration",
         "Reference-interpretation conformance: every catalogue cipher suite x direction x every message length 0..N x offsets x in-place x IV/counter classes is run on every variant and compared with an independent interpretation built from OpenSSL block primitives (harness/ref.c). The specification's contribution is the case partition and the multi-lane context: the same comparison is a conjunct (Checks ref) of the trace specification for job/burst/mixed schedules and for a directed lane-fill sweep over every (suite, variant) with short and long unequal lengths; counter-carry length windows (4030..4150, 8130..8240) are dense. A TLA+ model cannot decide bit-exactness of a kernel.",
         "no independent reference offline for ZUC/SNOW3G/KASUMI/SNOW-V/CBCS (cross-variant differential + published vectors only)",
         "differential testing against a reference interpretation (exploration)", "5 C01"),
 "C02": ("exploration",
         "As C01 for digests and MACs: all HMACs (key lengths 1..150 through the ipad/opad helper), plain SHA/SM3, XCBC, CMAC 128/256/bit-length, GMAC, GHASH, Poly1305 and the twelve CRCs, permitted tag lengths, every message length 0..N incl. padding thresholds, hash-only and chained jobs, every variant, against OpenSSL digests and from-the-definition MAC/CRC code; singly and, as a conjunct of the trace specification, inside schedules and the lane-fill sweep (full lanes, long unequal lengths).",
         "no independent reference offline for ZUC-EIA3, SNOW3G-UIA2, KASUMI-F9",
         "differential testing against a reference interpretation (exploration)", "5 C02"),
 "C03": ("exploration",
         "AES-GCM (IV 1..64 bytes, AAD 0..600, tags 1..16), AES-CCM (nonce 7..13, AAD 0..46, even tags) and ChaCha20-Poly1305 in both directions, every plaintext length 0..N, every variant, against OpenSSL's AEADs; decrypt jobs must restore the plaintext and output the identical tag; counter-carry length windows; the same comparison inside schedules (trace-specification conjunct).",
         "SNOW-V-AEAD, SM4-GCM, PON and DOCSIS+CRC32 have no independent reference here (cross-variant differential only)",
         "differential testing against a reference interpretation (exploration)", "5 C03"),
 "C11": ("exploration",
         "Direct comparison of AES key expansion (both schedules), CMAC sub-keys and XCBC keys with from-the-standard implementations (computed S-box) for random and structured keys; HMAC-MD5 long-key refusal; indirectly every reference-checked job consumes helper output (ipad/opad incl. hashed long keys, GCM/GHASH tables, DES, SM4 schedules) and on alternate variants another variant's helpers prepare the keys (interchange).",
         "KASUMI/SNOW3G schedules and 3GPP IV generators only through jobs without independent reference",
         "differential testing against from-the-standard key material (exploration)", "5 C11"),
 "C09": ("model_checking",
         "Same work item through every entry point: synchronous cipher/hash/AEAD bursts (sizes below/at/above every lane count, distinct data, unequal lengths) and direct functions (GCM one-shot, GMAC streaming, GHASH, SHA one-shot and one-block vs OpenSSL transforms, ZUC-EEA3/EIA3, SNOW3G (incl. 2/4/8 and multi-key), KASUMI (incl. 2/3/4 and bit) 1..N-buffer calls in structured length regimes, CRCs, HEC vs a bit-serial reference and vs the PON job, single-block CFB, QUIC helpers) against the job API, judged by spec/Trace_Entry.tla; asynchronous burst and no-check submit inside mixed schedules against the checked single-job call, judged by Trace_ImbMgr (run-alone oracle conjunct). The interaction of synchronous bursts with parked asynchronous jobs is a recorded known finding.",
         "direct calls of more than six arguments are not register-checked (C18 judges the others); known finding KF-2",
         "TLA+ trace validation of cross-entry-point differential runs", "5 C09"),
 "C13": ("exploration",
         "Trampoline scrubs registers/dead stack before and dumps them after every call; in every quiescent state (established by the ring model during trace validation) registers, dead stack and the whole manager block are searched for 8-byte windows of keys, derived key material and plaintext (hash-only messages included, as in the library's own safe check) of the jobs completed since the last quiescent state; the residue counts are conjuncts of the trace specification; a hit must repeat with fresh secrets. Key-preparation helpers and nine direct cipher / authentication calls are scanned at their own return (spec/Trace_KeyRes.tla). Key-dependence differential (spec/Trace_KeyDiff.tla): every keyed kind in four schedule shapes runs twice with different keys on a manager at the same address with identical messages and buffer addresses; once all jobs are handed back, manager storage, registers and dead stack must not differ outside public outputs and the benign chaining slots - this finds residue derived from the key (cipher state, key stream) that matches no byte pattern of the key. Sensitivity shown by a SAFE_DATA=OFF build (hundreds of hits).",
         "low-entropy secrets not searched; residues shorter than 8 bytes are below the scanner's resolution; the key-dependence differential treats chaining slots holding cipher text and digests of cipher text as benign (set Benign of spec/Trace_KeyDiff.tla)",
         "register/stack/manager residue scan in model-established quiescent states", "5 C13"),
}

NA = {
 "C19": "constant-time behaviour (branch/address traces as a function of secret data) is not expressible in a TLA+ state-machine model; it needs instruction-level taint tracking, a different technique family",
}
PENDING = "check not built yet in this round of the build; not claimed until its machinery exists and is quiet on the unchanged tree"

props = [json.loads(l) for l in open("/verif/properties.jsonl")]
checks, na = [], []
for p in props:
    pid = p["id"]
    if pid in CLAIMED:
        cat, text, note, tech, ref = CLAIMED[pid]
        checks.append({
            "property_id": pid,
            "quick_cmd": "tools/vcheck %s --tier quick" % pid,
            "thorough_cmd": "tools/vcheck %s --tier thorough" % pid,
            "evidence_file": "/verif/evidence/%s.json" % pid,
            "replay_cmd_template": "tools/vcheck replay {path}",
            "engine": "tlc+imbdrv",
            "level_claimed": {"category": cat, "text": text, "design_ref": "DESIGN.md section " + ref},
            "level_note": note,
            "technique": tech,
        })
    else:
        na.append({"property_id": pid, "reason": NA.get(pid, PENDING)})

m = {
 "version": 1,
 "setup_cmd": "tools/setup.sh",
 "hooks": {
  "guard": "IMB_VERIF",
  "enable": "tools/build_repo.sh configures /repo with -DEXTRA_CFLAGS=-DIMB_VERIF -DCMAKE_ASM_NASM_FLAGS=-DIMB_VERIF into /verif/.build/hooks-<tree hash>/",
  "baseline_off_cmd": "tools/baseline_off.sh",
  "source_commits": hook_commits,
  "add_only": True,
 },
 "engines": [
  {"name": "tlc+imbdrv", "path": "/verif/tools/vcheck",
   "serves_properties": sorted(CLAIMED.keys()),
   "kind_free_text": "TLA+ specifications under /verif/spec checked with TLC (exhaustive small configurations) and bound to the code by trace validation: /verif/harness/imbdrv executes schedules against libIPSec_MB rebuilt from /repo's working tree and records one ndjson event per API call, which TLC validates against the specification's actions"},
 ],
 "checks": checks,
 "not_applicable": na,
 "notes": "Design and per-property rationale in DESIGN.md; defects found and repaired are listed in known_findings.json (fixed entries suppress nothing).",
}
json.dump(m, open("/verif/MANIFEST.json", "w"), indent=1)
print("claimed:", sorted(CLAIMED.keys()), "not claimed:", [x["property_id"] for x in na])
