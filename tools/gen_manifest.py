#!/usr/bin/env python3
"""Generates /verif/MANIFEST.json from the table below (single source of truth for the interface)."""
import json, subprocess

hooks = subprocess.run(["git", "-C", "/repo", "log", "--format=%H %s"], capture_output=True, text=True).stdout.splitlines()
hook_commits = [l.split()[0] for l in hooks if "verif hook (guard IMB_VERIF)" in l]

CLAIMED = {
 "C05": ("model_checking",
         "TLC explores the level-A specification (spec/ImbMgr.tla: ring, single-job and burst API, error codes, re-init) exhaustively for a small ring and checks order/exactly-once/accounting/flush/offered-slot/full-queue invariants; every recorded execution of the real library at the real ring size is validated event by event against the same actions (spec/Trace_ImbMgr.tla), the model predicting ring indexes, hand-back order and statuses after every call.",
         "bounded exhaustive model (small ring), conformance by trace validation of random/model-shaped schedules at N=256; the harness's report of which jobs finished inside a call is trusted",
         "TLA+ model checking (TLC) + trace validation of recorded executions", "5 C05"),
 "C04": ("model_checking",
         "Schedules mixing >=6 suites with distinct data/keys/IVs per lane are executed on every variant; each handed-back job is compared with the same job run alone on a fresh manager; the comparison bit is a conjunct of the trace specification, which also replays the ring model so that the schedule context (what was in flight, what finished when) of every comparison is validated.",
         "run-alone result of the same variant is the reference; exhaustive model bounds as for C05",
         "TLA+ trace validation with run-alone differential oracle", "5 C04"),
 "C14": ("model_checking",
         "The level-A actions fix the error code after every call (0 on success, the call's own code on failure, mirrored process-wide) and the final status of every handed-back job; recorded executions are validated against that, together with a field-by-field descriptor comparison for every returned job and a sweep of imb_get_strerror over the integer classes.",
         "descriptor fields named by the property are compared; length fields are informational (the CMAC path rewrites msg_len_to_hash_in_bits)",
         "TLA+ trace validation (errno/status per call) + descriptor snapshots", "5 C14"),
}

NA = {
 "C19": "constant-time behaviour (branch/address traces as a function of secret data) is not expressible in a TLA+ state-machine model; it needs instruction-level taint tracking, a different technique family",
}
PENDING = "check not built yet in this round of the build; not claimed until its machinery exists and is quiet on the unchanged tree"

props = [json.loads(l) for l in open("/verif/properties.jsonl")]
checks, na = [], []
for p in props:
    pid = p["id"]
    if pid in CLAIMED:
        cat, text, note, tech, ref = CLAIMED[pid]
        checks.append({
            "property_id": pid,
            "quick_cmd": "tools/vcheck %s --tier quick" % pid,
            "thorough_cmd": "tools/vcheck %s --tier thorough" % pid,
            "evidence_file": "/verif/evidence/%s.json" % pid,
            "replay_cmd_template": "tools/vcheck replay {path}",
            "engine": "tlc+imbdrv",
            "level_claimed": {"category": cat, "text": text, "design_ref": "DESIGN.md section " + ref},
            "level_note": note,
            "technique": tech,
        })
    else:
        na.append({"property_id": pid, "reason": NA.get(pid, PENDING)})

m = {
 "version": 1,
 "setup_cmd": "tools/setup.sh",
 "hooks": {
  "guard": "IMB_VERIF",
  "enable": "tools/build_repo.sh configures /repo with -DEXTRA_CFLAGS=-DIMB_VERIF -DCMAKE_ASM_NASM_FLAGS=-DIMB_VERIF into /verif/.build/hooks-<tree hash>/",
  "baseline_off_cmd": "tools/baseline_off.sh",
  "source_commits": hook_commits,
  "add_only": True,
 },
 "engines": [
  {"name": "tlc+imbdrv", "path": "/verif/tools/vcheck",
   "serves_properties": sorted(CLAIMED.keys()),
   "kind_free_text": "TLA+ specifications under /verif/spec checked with TLC (exhaustive small configurations) and bound to the code by trace validation: /verif/harness/imbdrv executes schedules against libIPSec_MB rebuilt from /repo's working tree and records one ndjson event per API call, which TLC validates against the specification's actions"},
 ],
 "checks": checks,
 "not_applicable": na,
 "notes": "Design and per-property rationale in DESIGN.md; defects found and repaired are listed in known_findings.json (fixed entries suppress nothing).",
}
json.dump(m, open("/verif/MANIFEST.json", "w"), indent=1)
print("claimed:", sorted(CLAIMED.keys()), "not claimed:", [x["property_id"] for x in na])
