#!/usr/bin/env python3
"""Turn behaviours exported by TLC (spec/Gen_ImbMgr.tla) into operation scripts for `imbdrv sched --script`.
usage: gen_scripts.py <dir with b_*.ndjson> <out script> <seed> <variants comma separated>
The abstract burst sizes of the small model (0..3) are scaled to real burst sizes so that the real lane counts
are crossed; job kinds are drawn per behaviour from the catalogue (>= 6 suites)."""
import sys, json, glob, random, subprocess
src, out, seed, variants = sys.argv[1], sys.argv[2], int(sys.argv[3]), sys.argv[4].split(",")
kinds = sys.argv[5].split(",")
rnd = random.Random(seed)
n = 0
with open(out, "w") as f:
    for i, fn in enumerate(sorted(glob.glob(src + "/b_*.ndjson"))):
        ops = [json.loads(l) for l in open(fn)]
        ws = [rnd.choice(kinds) for _ in range(rnd.randint(6, 10))]
        scale = rnd.choice([1, 1, 3, 5, 11, 42])
        f.write("X %s %d\n" % (variants[i % len(variants)], rnd.getrandbits(48)))
        for o in ops:
            op = o["op"]
            if op == "S":
                inv = 0 if o["b"] else 2 + rnd.randint(0, 1)
                f.write("S %s %d %d\n" % (rnd.choice(ws), o["a"], inv))
            elif op in ("N", "F", "C", "Q"):
                f.write(op + "\n")
            elif op == "NB":
                f.write("NB %d\n" % min(128, o["a"] * scale))
            elif op == "SB":
                k = min(128, o["b"] * scale)
                ks = " ".join(rnd.choice(ws) for _ in range(k))
                if o["c"] > 0 and o["a"] == 1 and k > 0:
                    f.write("SBI %d %d %s\n" % (k, min(k - 1, (o["c"] - 1) * scale), ks))
                else:
                    f.write("SB %d %d %s\n" % (o["a"], k, ks))
            elif op == "FB":
                f.write("FB %d\n" % (o["a"] * scale * 16))
            elif op == "RA":
                f.write("RA\n")
        f.write("E\n")
        n += 1
print(n)
