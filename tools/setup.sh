#!/bin/bash
# Offline setup: nothing to download. Builds the library (hooks on) from /repo's working tree and the
# harness, and parses every specification once so that a broken tool chain shows up here.
set -euo pipefail
cd /verif
B=$(tools/build_repo.sh)
make -s -C harness LIBDIR="$B"
for f in spec/*.tla; do
  (cd spec && tla-sany "$(basename "$f")" > /dev/null) || { echo "SANY failed on $f" >&2; exit 2; }
done
echo "setup ok: $B"
