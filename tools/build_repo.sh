#!/bin/bash
# Build libIPSec_MB from /repo's *current working tree* with the verification hooks on
# (-DIMB_VERIF) into /verif/.build/<hash>/ ; print the build directory on stdout.
# The hash covers every file under lib/ plus the CMake files, so an edited tree gets a new build
# and an unchanged tree is built once and shared between checks (flock-protected).
set -euo pipefail
REPO=${VERIF_REPO:-/repo}
ROOT=/verif/.build
mkdir -p "$ROOT"
H=$( (cd "$REPO" && find lib cmake CMakeLists.txt -type f \( -name '*.c' -o -name '*.h' -o -name '*.asm' -o -name '*.inc' -o -name '*.txt' -o -name '*.cmake' \) -print0 | sort -z | xargs -0 sha1sum) | sha1sum | cut -c1-16)
FLAVOUR=${VERIF_FLAVOUR:-hooks}
B="$ROOT/$FLAVOUR-$H"
exec 9>"$ROOT/.lock"
flock 9
if [ ! -f "$B/.ok" ]; then
  # drop older builds of the same flavour (disk hygiene)
  for d in "$ROOT/$FLAVOUR"-*; do [ -d "$d" ] && [ "$d" != "$B" ] && rm -rf "$d"; done
  rm -rf "$B"; mkdir -p "$B"
  EXTRA="-DIMB_VERIF"; NASMX="-DIMB_VERIF"
  if [ "$FLAVOUR" = nohooks ]; then EXTRA=""; NASMX=""; fi
  ( cmake -G Ninja -S "$REPO" -B "$B" -DCMAKE_BUILD_TYPE=RelWithDebInfo -DBUILD_LIBRARY_ONLY=ON \
      -DEXTRA_CFLAGS="$EXTRA" -DCMAKE_ASM_NASM_FLAGS="$NASMX" -DCMAKE_C_FLAGS="-Wno-error" \
      && cmake --build "$B" -j"$(nproc)" ) > "$B/build.log" 2>&1 || { echo "BUILD FAILED, see $B/build.log" >&2; tail -30 "$B/build.log" >&2; exit 2; }
  touch "$B/.ok"
fi
echo "$B"
