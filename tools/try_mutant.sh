#!/bin/bash
# usage: tools/try_mutant.sh <patch.diff> <prop> [<prop>...]   -- applies the patch to /repo, runs the quick checks, reverts
set -u
P=$1; shift
rm -rf /verif/.build/evidence.bak; cp -r /verif/evidence /verif/.build/evidence.bak
cd /repo && git apply "$P" || { echo "patch does not apply"; exit 2; }
cd /verif
for c in "$@"; do
  echo "=== $c"; ( time tools/vcheck $c --tier ${TIER:-quick} ) 2>&1 | cut -c1-420 | grep -v "^$" | tail -12
done
cd /repo && git checkout -- . && git status --short | grep -v _build
rm -rf /verif/evidence; mv /verif/.build/evidence.bak /verif/evidence
