#!/bin/bash
# Independently confirm a seeded mutant: scratch worktree at /tmp/wt/<id> (outside /repo and /verif),
# (1) demo passes WITHOUT the change, (2) change applies and builds, (3) pinned suite passes with it,
# (4) demo fails with it. Writes seeded/<id>/confirm.log and removes the worktree + build output.
set -u
ID=$1; S=/verif/seeded/$ID; W=/tmp/wt/$ID; L=$S/confirm.log
: > $L
cd /repo && git worktree add -q --detach $W HEAD >> $L 2>&1 || exit 2
cd $W
cfg() { cmake -G Ninja -B _build -DCMAKE_BUILD_TYPE=RelWithDebInfo -DBUILD_TESTING=ON -DCMAKE_C_FLAGS=-Wno-error > /dev/null 2>&1; }
mkdir -p _mutant && cp $S/demo.* _mutant/ 2>/dev/null; cp $S/*.c $S/*.sh $S/*.h _mutant/ 2>/dev/null
cfg; cmake --build _build -j${J:-8} > /tmp/wt/$ID.build0.log 2>&1; echo "build(without change) rc=$?" >> $L
( cd _mutant && timeout 900 bash ./demo.sh > /tmp/wt/$ID.demo0.log 2>&1 ); echo "demo WITHOUT change: exit $? (expected 0)" >> $L
git apply $S/patch.diff >> $L 2>&1; echo "apply rc=$?" >> $L
# ninja does not track nasm %include: rebuild from scratch to be sure the change is in
rm -rf _build; cfg; cmake --build _build -j${J:-8} > /tmp/wt/$ID.build1.log 2>&1; echo "build(with change) rc=$?" >> $L
( cd _mutant && timeout 900 bash ./demo.sh > /tmp/wt/$ID.demo1.log 2>&1 ); echo "demo WITH change: exit $? (expected non-zero)" >> $L
tail -3 /tmp/wt/$ID.demo1.log | cut -c1-300 >> $L
ctest --test-dir _build -j${J:-8} --timeout 900 2>&1 | tail -4 >> $L
cd /repo && git worktree remove --force $W; rm -f /tmp/wt/$ID.*.log
echo "done $(date)" >> $L
