#!/bin/bash
# Measures which lines of the library's C sources the quick tier of all checks executes (gcov).
# Scratch build in $1 (default /tmp/imbcov, removed at the end unless KEEP=1); evidence is restored afterwards.
# Output: per-file hit/miss summary and the unexecuted rejection branches of is_job_invalid().
set -u
W=${1:-/tmp/imbcov}; rm -rf $W; mkdir -p $W
cmake -G Ninja -S /repo -B $W/b -DCMAKE_BUILD_TYPE=Debug -DBUILD_LIBRARY_ONLY=ON -DEXTRA_CFLAGS="-DIMB_VERIF --coverage -O0" \
  -DCMAKE_ASM_NASM_FLAGS="-DIMB_VERIF" -DCMAKE_C_FLAGS="-Wno-error" -DCMAKE_SHARED_LINKER_FLAGS="--coverage" > $W/cfg.log 2>&1 || exit 2
cmake --build $W/b -j8 > $W/build.log 2>&1 || exit 2
rm -rf /verif/.build/evidence.cov.bak; cp -r /verif/evidence /verif/.build/evidence.cov.bak
VERIF_COVLIB=$W/b /verif/tools/run_all.sh quick > $W/run.log 2>&1
rm -rf /verif/evidence; mv /verif/.build/evidence.cov.bak /verif/evidence
cd $W/b/lib/CMakeFiles/IPSec_MB.dir
for d in x86_64 avx2_t1 avx512_t2 sse_t1 no-aesni; do
  [ -d $d ] || continue
  ( cd $d; for g in *.gcda; do gcov $g > /dev/null 2>&1; done
    for f in *.gcov; do awk -v F="$d/$f" -F: '{c=$1; gsub(/ /,"",c); if (c=="#####") m++; else if (c!="-") h++} END{if (h+m>0) printf "%-60s hit %5d miss %5d\n", F, h, m}' $f; done )
done | sort -k5 -n -r > $W/summary.txt
head -40 $W/summary.txt
[ "${KEEP:-0}" = 1 ] || rm -rf $W/b
