#!/bin/bash
# usage: tools/try_mutant_wt.sh <patch.diff> <prop> [<prop>...]
# Like try_mutant.sh, but /repo is left alone: the patch is applied to a scratch worktree under /tmp/wt and the checks build
# that tree into a build directory of its own (VERIF_REPO + VERIF_TRIAL_FLAVOUR), so that other checks may run meanwhile.
# The evidence files the trial rewrites are restored afterwards.
set -u
P=$1; shift
ID=trial$$
W=/tmp/wt/$ID
mkdir -p /tmp/wt
git -C /repo worktree add -q --detach $W HEAD || exit 2
( cd $W && git apply "$P" ) || { echo "patch does not apply"; git -C /repo worktree remove --force $W; exit 2; }
rm -rf /verif/.build/evidence.$ID; cp -r /verif/evidence /verif/.build/evidence.$ID
cd /verif
for c in "$@"; do
  echo "=== $c"; ( time VERIF_REPO=$W VERIF_TRIAL_FLAVOUR=hooks$ID tools/vcheck $c --tier ${TIER:-quick} ) 2>&1 | cut -c1-420 | grep -v "^$" | tail -12
done
git -C /repo worktree remove --force $W; rm -rf $W /verif/.build/hooks$ID-*
for c in "$@"; do cp /verif/.build/evidence.$ID/$c.json /verif/evidence/$c.json 2>/dev/null; done
rm -rf /verif/.build/evidence.$ID
