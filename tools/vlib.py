"""Shared machinery for the per-property checks (tools/vcheck)."""
import json, os, re, subprocess, sys, time, shutil, hashlib, glob, tempfile

VERIF = "/verif"
SPEC = VERIF + "/spec"
EVID = VERIF + "/evidence"
NCPU = os.cpu_count() or 8


class MachineryError(Exception):
    pass


def sh(cmd, timeout=None, env=None, cwd=None, check=False):
    e = dict(os.environ)
    if env:
        e.update(env)
    p = subprocess.run(cmd, shell=isinstance(cmd, str), capture_output=True, text=True, timeout=timeout,
                       env=e, cwd=cwd)
    if check and p.returncode != 0:
        raise MachineryError("command failed (%d): %s\n%s\n%s" % (p.returncode, cmd, p.stdout[-2000:], p.stderr[-2000:]))
    return p


def build(flavour="hooks"):
    """Build the library from /repo's working tree and the harness against it."""
    if os.environ.get("VERIF_COVLIB"):
        # coverage measurement only (tools/coverage.sh): a gcov-instrumented build of the same tree, harness in <dir>/hx
        libdir = os.environ["VERIF_COVLIB"]
        p = sh(["make", "-s", "-C", VERIF + "/harness", "LIBDIR=" + libdir], timeout=600)
        if p.returncode != 0:
            raise MachineryError("harness build failed:\n" + p.stdout[-3000:] + p.stderr[-3000:])
        return libdir, libdir + "/hx/imbdrv"
    # (VERIF_TRIAL_FLAVOUR + VERIF_REPO: a side build of another tree, e.g. a scratch worktree with a seeded change, in a
    # build directory of its own - it must not displace the build of /repo that other running checks use)
    p = sh([VERIF + "/tools/build_repo.sh"], timeout=1500, env={"VERIF_FLAVOUR": os.environ.get("VERIF_TRIAL_FLAVOUR", flavour)})
    if p.returncode != 0:
        raise MachineryError("library build failed:\n" + p.stderr[-3000:])
    libdir = p.stdout.strip().splitlines()[-1]
    p = sh(["make", "-s", "-C", VERIF + "/harness", "LIBDIR=" + libdir], timeout=600)
    if p.returncode != 0:
        raise MachineryError("harness build failed:\n" + p.stdout[-3000:] + p.stderr[-3000:])
    return libdir, libdir + "/hx/imbdrv"


def scratch(name):
    d = os.path.join(VERIF, ".build", "scratch", name + "-" + str(os.getpid()))
    shutil.rmtree(d, ignore_errors=True)
    os.makedirs(d, exist_ok=True)
    return d


TLC_JAR = "/opt/veriftools/tla/tla2tools.jar"


def tlc(module, cfg, workers=NCPU, env=None, timeout=3600, extra=None, heap="8g", simulate=None, depth=None):
    """Run TLC; returns dict(rc, out, generated, distinct, ok, violation)."""
    meta = tempfile.mkdtemp(prefix="tlc-", dir=os.path.join(VERIF, ".build"))
    cmd = ["tlc", "-workers", str(workers), "-noGenerateSpecTE", "-metadir", meta, "-config", cfg]
    if simulate:
        cmd += ["-simulate", "num=%d" % simulate]
        if depth:
            cmd += ["-depth", str(depth)]
    if extra:
        cmd += extra
    cmd += [module]
    e = {"JAVA_TOOL_OPTIONS": "-Xss64m -Xmx" + heap}
    if env:
        e.update(env)
    t0 = time.time()
    try:
        p = sh(cmd, timeout=timeout, env=e, cwd=SPEC)
        out = p.stdout + p.stderr
        rc = p.returncode
    except subprocess.TimeoutExpired as ex:
        out = (ex.stdout or b"").decode("utf8", "replace") if isinstance(ex.stdout, bytes) else (ex.stdout or "")
        out += "\nTIMEOUT"
        rc = 124
    finally:
        shutil.rmtree(meta, ignore_errors=True)
    r = {"rc": rc, "out": out, "wall": time.time() - t0, "generated": 0, "distinct": 0}
    m = re.findall(r"(\d[\d,]*) states generated, (\d[\d,]*) distinct states found", out)
    if m:
        r["generated"] = int(m[-1][0].replace(",", ""))
        r["distinct"] = int(m[-1][1].replace(",", ""))
    r["ok"] = ("No error has been found" in out) and rc == 0
    r["violation"] = ("is violated" in out) or ("is false" in out and "Postcondition" in out)
    r["machinery_failure"] = (not r["ok"]) and (not r["violation"])
    m = re.search(r'TRACE_REJECTED_AT_LINE", (\d+), "OF", (\d+)', out)
    r["rejected_line"] = int(m.group(1)) if m else None
    return r


def split_trace(path, nparts, outdir):
    """Split an ndjson trace at Reset events into <= nparts files of similar size."""
    execs, cur = [], []
    with open(path) as f:
        for line in f:
            if line.startswith('{"e":"Reset"') and cur:
                execs.append(cur)
                cur = []
            cur.append(line)
    if cur:
        execs.append(cur)
    nparts = max(1, min(nparts, len(execs)))
    parts = [[] for _ in range(nparts)]
    sizes = [0] * nparts
    for ex in sorted(execs, key=len, reverse=True):
        i = sizes.index(min(sizes))
        parts[i].append(ex)
        sizes[i] += len(ex)
    files = []
    for i, p in enumerate(parts):
        fn = os.path.join(outdir, "part%02d.ndjson" % i)
        with open(fn, "w") as f:
            for ex in p:
                f.writelines(ex)
        files.append((fn, len(p), sizes[i]))
    return files, len(execs)


def validate_traces(trace, module, cfg_text, outdir, nparts=NCPU, timeout=3000):
    """Validate a recorded trace with TLC (trace spec `module`), in parallel over executions.
    Returns dict(accepted_execs, total_execs, events, rejections=[(file, line_no, event_text)])."""
    files, nexec = split_trace(trace, nparts, outdir)
    cfg = os.path.join(outdir, "trace.cfg")
    with open(cfg, "w") as f:
        f.write(cfg_text)
    procs = []
    for fn, ne, nl in files:
        meta = tempfile.mkdtemp(prefix="tlc-", dir=os.path.join(VERIF, ".build"))
        e = dict(os.environ)
        e["TRACE"] = fn
        e["JAVA_TOOL_OPTIONS"] = "-Xss64m -Xmx3g"
        p = subprocess.Popen(["tlc", "-workers", "1", "-noGenerateSpecTE", "-metadir", meta, "-config", cfg, module], cwd=SPEC, env=e,
                             stdout=subprocess.PIPE, stderr=subprocess.STDOUT, text=True)
        procs.append((p, fn, ne, nl, meta))
    res = {"accepted_execs": 0, "total_execs": nexec, "events": 0, "rejections": [], "states": 0,
           "machinery": []}
    t_end = time.time() + timeout
    for p, fn, ne, nl, meta in procs:
        try:
            out, _ = p.communicate(timeout=max(1, t_end - time.time()))
        except subprocess.TimeoutExpired:
            p.kill()
            out = "TIMEOUT"
        shutil.rmtree(meta, ignore_errors=True)
        res["events"] += nl
        m = re.findall(r"(\d[\d,]*) states generated, (\d[\d,]*) distinct states found", out)
        if m:
            res["states"] += int(m[-1][1].replace(",", ""))
        if "No error has been found" in out and p.returncode == 0:
            res["accepted_execs"] += ne
            continue
        m = re.search(r'TRACE_REJECTED_AT_LINE", (\d+), "OF", (\d+)', out)
        if m:
            ln = int(m.group(1))
            lines = open(fn).read().splitlines()
            ev = lines[ln - 1] if ln - 1 < len(lines) else "<end>"
            # executions fully consumed before the rejected line count as accepted
            res["accepted_execs"] += sum(1 for x in lines[:ln - 1] if x.startswith('{"e":"End"'))
            res["rejections"].append((fn, ln, ev))
        elif "is violated" in out:
            mm = re.search(r"Invariant (\S+) is violated", out)
            res["rejections"].append((fn, -1, "invariant %s violated while replaying the trace" % (mm.group(1) if mm else "?")))
        else:
            res["machinery"].append(out[-1500:])
    return res


def write_evidence(pid, tier, seed, level, coverage, wall, violations, assumptions=None):
    os.makedirs(EVID, exist_ok=True)
    ev = {"property_id": pid, "tier": tier, "seed": int(seed), "level": level, "coverage": coverage,
          "assumptions": assumptions or [], "wall_s": round(wall, 2), "violations": int(violations)}
    with open(os.path.join(EVID, pid + ".json"), "w") as f:
        json.dump(ev, f, indent=1)
    return ev


def load_known():
    try:
        return json.load(open(os.path.join(VERIF, "known_findings.json")))
    except FileNotFoundError:
        return {"findings": [], "fixed": []}


def save_replay(pid, src_file, upto=None, note=None):
    d = os.path.join(EVID, "replays", pid)
    os.makedirs(d, exist_ok=True)
    n = len(glob.glob(d + "/*.ndjson"))
    dst = os.path.join(d, "%d.ndjson" % n)
    with open(src_file) as f, open(dst, "w") as g:
        lines = f.readlines()
        if upto:
            # keep the execution that contains line `upto`
            start = 0
            for i in range(min(upto, len(lines))):
                if lines[i].startswith('{"e":"Reset"'):
                    start = i
            lines = lines[start:upto]
        g.writelines(lines)
        if note:
            g.write(json.dumps({"e": "Note", "note": note}) + "\n")
    return dst


def sample_lines(path, n=3, maxlen=600):
    out = []
    try:
        with open(path) as f:
            for i, line in enumerate(f):
                if i in (1, 2, 3, 50, 200)[:n + 2]:
                    try:
                        out.append(json.loads(line))
                    except Exception:
                        out.append(line[:maxlen])
                if len(out) >= n:
                    break
    except FileNotFoundError:
        pass
    return out
