-------------------------------- MODULE Ooo --------------------------------
(***************************************************************************)
(* Level B state machine over the lane operators of OooLanes.tla: jobs of  *)
(* arbitrary lengths are submitted and flushed in any order; TLC checks    *)
(* the design-level isolation and structural invariants (C04, scheduler    *)
(* half of C07) exhaustively for small lane counts.                        *)
(***************************************************************************)
EXTENDS OooLanes

-----------------------------------------------------------------------------
CONSTANTS MaxJobs, Lens          \* job ids 1..MaxJobs, each with a length from Lens
VARIABLES ost,       \* lane state
          jlen,      \* job id -> its length (0 = not submitted yet)
          written,   \* set of <<buf, pos, key>> cells written so far
          finished,  \* set of jobs handed back by the lanes
          nextJob

ovars == <<ost, jlen, written, finished, nextJob>>

OInit == /\ ost = EmptyLanes /\ jlen = [j \in 1 .. MaxJobs |-> 0] /\ written = {} /\ finished = {} /\ nextJob = 1

Apply(r, w) == /\ ost' = r.st
               /\ written' = written \cup w
               /\ finished' = IF r.ret = NOJOB THEN finished ELSE finished \cup {r.ret}

SubmitStep ==
    /\ nextJob <= MaxJobs /\ ost.stack # <<>>
    /\ \E len \in Lens :
          /\ jlen' = [jlen EXCEPT ![nextJob] = len]
          /\ Apply(OSubmit(ost, nextJob, len), OSubmitWrites(ost, nextJob, len))
    /\ nextJob' = nextJob + 1

FlushStep == /\ Apply(OFlush(ost), OFlushWrites(ost)) /\ UNCHANGED <<jlen, nextJob>>

ONext == SubmitStep \/ FlushStep
OSpec == OInit /\ [][ONext]_ovars

\* ---- design-level properties ----
\* every cell ever written belongs to the job that owns the buffer, is produced with that job's key,
\* and lies inside the job's message (copied idle lanes duplicate a live lane: same cells, same key)
OwnData == \A c \in written : c[3] = c[1] /\ c[1] # NOJOB /\ c[2] < jlen[c[1]]

\* a finished job has been processed completely, and nothing of an unfinished job's tail is claimed done
ExactlyAll == \A j \in finished : \A p \in 0 .. jlen[j] - 1 : <<j, p, j>> \in written

\* structural lane invariants
StackDisjoint ==
    /\ \A i, k \in 1 .. Len(ost.stack) : i # k => ost.stack[i] # ost.stack[k]
    /\ { ost.stack[i] : i \in 1 .. Len(ost.stack) } = Lanes \ Busy(ost)
NoDupJob == \A a, b \in Busy(ost) : ost.jil[a] = ost.jil[b] => a = b
LenSane == \A l \in Busy(ost) : ost.args[l].pos + ost.lens[l] = jlen[ost.jil[l]]
NeverFullAtRest == ost.stack # <<>>           \* a submit that fills the last lane always frees one
OnceOnly == \A j \in finished : j \notin { ost.jil[l] : l \in Lanes }

OInv == OwnData /\ ExactlyAll /\ StackDisjoint /\ NoDupJob /\ LenSane /\ NeverFullAtRest /\ OnceOnly
=============================================================================
