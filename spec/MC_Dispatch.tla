---------------------------- MODULE MC_Dispatch ----------------------------
(* Exhaustive evaluation of the design-level dispatch properties over the full product of cells. *)
EXTENDS Dispatch, TLC
ASSUME RowsInRange
ASSUME RowInjective
ASSUME KeyClassInjective
ASSUME AeadOnlyWithPartner
ASSUME PlanShape
ASSUME PrintT(<<"CELLS", Cardinality(Cells), "PERMITTED", NumOK>>)
VARIABLE x
Init == x = 0
Next == x' = x
Spec == Init /\ [][Next]_x
=============================================================================
