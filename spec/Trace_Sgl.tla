------------------------------ MODULE Trace_Sgl ------------------------------
(* Validates recorded streaming/SGL sessions (harness/drv_sgl.c) against Sgl.tla: after every
   call the public context fields must equal the model's (which TLC proved to be a function of
   the number of bytes consumed), and at the end output and tag must equal the one-shot result. *)
EXTENDS Sgl, Json, IOUtils, TLC

Tr == ndJsonDeserialize(IOEnv.TRACE)
CONSTANT Strict      \* TRUE: context fields are compared too; FALSE: only the verdict fields
VARIABLES l, sess    \* sess = the SglBegin record of the session in progress

tvars == <<vars, l, sess>>

IsEv(e) == l <= Len(Tr) /\ Tr[l].e = e /\ l' = l + 1

CtxOK(t) ==
    Strict =>
        IF sess'.alg = "chapoly"
        THEN /\ t.hlen = hashlen' /\ t.rct = rct' /\ t.rks = rks' /\ t.blk = ksblocks'
        ELSE \* VAES variants keep an exactly full pending block as partial_block_length = 16
             /\ (t.rct = rct' \/ (t.rct = 16 /\ rct' = 0 /\ pos' > 0))
             /\ IF sess'.alg = "gmac"
                THEN t.hlen = 0 /\ t.aadl = hashlen'      \* GMAC accumulates the message as AAD
                ELSE t.hlen = hashlen' /\ t.aadl = sess'.aadlen

TBegin ==
    /\ IsEv("SglBegin")
    /\ sess' = Tr[l]
    /\ phase' = "init" /\ pos' = 0 /\ rct' = 0 /\ scratch' = <<>> /\ macfed' = <<>>
    /\ hashlen' = 0 /\ ksblocks' = 0 /\ rks' = 0 /\ out' = <<>>

TInit ==
    /\ IsEv("Init") /\ phase \in {"init"}
    /\ InitCtx /\ UNCHANGED sess
    /\ CtxOK(Tr[l])

\* job-SGL for ChaCha20-Poly1305 carries the first segment in its INIT job
TUpd ==
    /\ IsEv("Upd")
    /\ IF phase = "init"
       THEN /\ phase' = "upd"
            /\ LET n == Tr[l].n IN
               \* Update(n) from the initialised context
               /\ pos' = n /\ hashlen' = n /\ rct' = n % 16
               /\ scratch' = Range(n - (n % 16), n % 16) /\ macfed' = Range(0, n - (n % 16))
               /\ out' = [i \in 1 .. n |-> <<(i - 1) \div KB, (i - 1) % KB>>]
               /\ ksblocks' = (n + KB - 1) \div KB /\ rks' = (KB - (n % KB)) % KB
       ELSE Update(Tr[l].n)
    /\ UNCHANGED sess
    /\ CtxOK(Tr[l])

\* one IMB_SGL_ALL job: the library walks the segment array itself
RECURSIVE Sum(_, _)
Sum(s, i) == IF i > Len(s) THEN 0 ELSE s[i] + Sum(s, i + 1)
TJobAll ==
    /\ IsEv("JobAll") /\ Tr[l].st = 3 /\ Tr[l].errno = 0
    /\ LET n == Sum(sess.segs, 1) IN
       /\ phase' = "upd" /\ pos' = n /\ hashlen' = n /\ rct' = n % 16
       /\ scratch' = Range(n - (n % 16), n % 16) /\ macfed' = Range(0, n - (n % 16))
       /\ out' = [i \in 1 .. n |-> <<(i - 1) \div KB, (i - 1) % KB>>]
       /\ ksblocks' = (n + KB - 1) \div KB /\ rks' = (KB - (n % KB)) % KB
    /\ UNCHANGED sess

\* the COMPLETE job of ChaCha20-Poly1305-SGL carries the last segment
TJobStates ==
    /\ IsEv("JobStates") /\ Tr[l].bad = 0 /\ Tr[l].errno = 0
    /\ IF Tr[l].last_n > 0 THEN Update(Tr[l].last_n) ELSE UNCHANGED vars
    /\ UNCHANGED sess

TEnd ==
    /\ IsEv("SglEnd")
    /\ pos = sess.total                      \* every byte of the message went through the context
    /\ IF phase = "init" THEN (InitCtx) ELSE Finalize
    /\ Tr[l].out_eq = 1 /\ Tr[l].tag_eq = 1  \* = the one-shot result, whatever the segmentation
    /\ Tr[l].abi = 0
    /\ UNCHANGED sess

TDone == IsEv("SglDone") /\ UNCHANGED <<vars, sess>>

TInit0 == l = 1 /\ Init /\ sess = [alg |-> "none"]
TNext == TBegin \/ TInit \/ TUpd \/ TJobAll \/ TJobStates \/ TEnd \/ TDone
TSpec == TInit0 /\ [][TNext]_tvars

TraceAccepted ==
    LET d == TLCGet("stats").diameter IN
    IF d - 1 = Len(Tr) THEN TRUE
    ELSE /\ PrintT(<<"TRACE_REJECTED_AT_LINE", d, "OF", Len(Tr)>>)
         /\ FALSE
=============================================================================
