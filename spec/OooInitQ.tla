------------------------------ MODULE OooInitQ ------------------------------
(***************************************************************************)
(* Level B: the SNOW3G-UIA2 out-of-order manager                           *)
(* (lib/sse_t1/mb_mgr_snow3g_uia2_submit_flush_x4_sse.asm,                 *)
(*  lib/avx512_t2/mb_mgr_snow3g_uia2_submit_flush_vaes_avx512.asm).        *)
(* Lanes carry no lengths.  The multi-buffer part is the key-stream        *)
(* initialisation only: once every lane is taken (or on a flush) all       *)
(* occupied lanes are initialised together (init_done mask), and each      *)
(* later call digests ONE initialised lane - the lowest - with the         *)
(* single-buffer F9 code and hands its job back.  A job that enters a      *)
(* lane while initialised lanes remain waits for the next initialisation   *)
(* round.                                                                  *)
(***************************************************************************)
EXTENDS Naturals, Sequences, FiniteSets
CONSTANTS L
Lanes == 0 .. L - 1
NOJOB == 0
MinS(S) == CHOOSE x \in S : \A y \in S : x <= y

EmptyLanes == [jil |-> [l \in Lanes |-> NOJOB],
               stack |-> [i \in 1 .. L |-> i - 1],     \* unused_lanes: lane 0 is popped first
               init |-> {},                             \* _snow3g_init_done
               ks |-> [l \in Lanes |-> NOJOB]]          \* ghost: the job whose key and IV the key stream of the lane was started from
Busy(st) == { l \in Lanes : st.jil[l] # NOJOB }

\* process_job_uia2 .. process_completed_job_submit_uia2 for lane idx
Finish(st, idx) ==
    [st |-> [jil |-> [st.jil EXCEPT ![idx] = NOJOB], stack |-> <<idx>> \o st.stack, init |-> st.init \ {idx}, ks |-> st.ks],
     ret |-> st.jil[idx],
     fresh |-> st.ks[idx] = st.jil[idx]]       \* the digest used the key stream of this very job
\* SNOW3G_AUTH_INIT_5: key stream of every lane of S started from the job in it
InitRound(st, S) == [st EXCEPT !.init = S, !.ks = [l \in Lanes |-> IF l \in S THEN st.jil[l] ELSE st.ks[l]]]

OSubmit(st, j) ==
    LET lane == Head(st.stack)
        st1 == [st EXCEPT !.jil[lane] = j, !.stack = Tail(st.stack)]
    IN IF st1.stack # <<>> THEN [st |-> st1, ret |-> NOJOB, fresh |-> TRUE]
       ELSE IF st1.init = {} THEN Finish(InitRound(st1, Lanes), 0)             \* init_all_lanes_uia2, bsf -> lane 0
       ELSE Finish(st1, MinS(st1.init))                                        \* next initialised lane

OFlush(st) ==
    IF Busy(st) = {} THEN [st |-> st, ret |-> NOJOB, fresh |-> TRUE]
    ELSE IF st.init # {} THEN Finish(st, MinS(st.init))
    ELSE Finish(InitRound(st, Busy(st)), MinS(Busy(st)))

\* invariants of the machine (checked through Chain.tla / InitQ model below)
TypeOK(st) == /\ st.init \subseteq Busy(st)
              /\ Len(st.stack) + Cardinality(Busy(st)) = L
              /\ \A i \in 1 .. Len(st.stack) : st.jil[st.stack[i]] = NOJOB
              /\ \A l \in st.init : st.ks[l] = st.jil[l]
=============================================================================
