----------------------------- MODULE Trace_Chain -----------------------------
(***************************************************************************)
(* Level-B fidelity for whole managers: recorded executions that mix       *)
(* cipher-only, hash-only and chained suites (both chain orders) over the  *)
(* modelled unit families are replayed through the level-A trace           *)
(* specification AND through the chaining engine of ChainOps.tla composed  *)
(* over one lane machine per out-of-order unit of the variant under test   *)
(* (table UnitsFor).  The composed model is deterministic: it predicts,    *)
(* call by call, exactly which jobs become COMPLETED.  With LaneStrict the *)
(* prediction must equal the set observed in the ring (field done); a      *)
(* disagreement that level A still accepts is model drift, not a property  *)
(* violation.                                                              *)
(***************************************************************************)
EXTENDS Trace_ImbMgr

CONSTANTS Variant, LaneStrict

\* ---- unit table of the library (lanes per out-of-order manager and variant) ----
Avx512 == Variant \in {"avx512_t1", "avx512_t2"}
Avx2 == Variant \in {"avx2_t1", "avx2_t2"}
ShaNi == Variant \in {"sse_t2", "sse_t3", "avx2_t2"}      \* SHA-NI 2-lane managers in use (SHA-1: SSE only)
SU(n) == [fam |-> "simple", L |-> n, blk |-> 1, pf |-> "", fl |-> 1, ss |-> FALSE]
ZU(n) == [fam |-> "simple", L |-> n, blk |-> 4, pf |-> "", fl |-> 1, ss |-> FALSE]       \* ZUC-EEA3: whole keystream words
DU(n, f, s) == [fam |-> "simple", L |-> n, blk |-> 1, pf |-> "", fl |-> f, ss |-> s]     \* DOCSIS: whole blocks in the lanes
CU(n, t) == [fam |-> "simple", L |-> n, blk |-> 160, pf |-> t, fl |-> 16, ss |-> FALSE]   \* AES-CBCS 1:9: kernel steps of 160 bytes
AU(n, r) == [fam |-> "simple", L |-> n, blk |-> r, pf |-> "", fl |-> 1, ss |-> FALSE]    \* ZUC-EIA3, lengths in bits: r = 65536: one kernel call
                                                                                           \* finishes every lane (SSE, AVX2); r = 32: whole words (AVX512)
QU(n) == [fam |-> "initq", L |-> n, blk |-> 1, pf |-> "", fl |-> 1, ss |-> FALSE]      \* SNOW3G-UIA2: lanes initialised together, digested one by one
HU(n, b) == [fam |-> "hmac", L |-> n, blk |-> b, pf |-> "", fl |-> 1, ss |-> FALSE]
PU(n, rule) == [fam |-> "phased", L |-> n, blk |-> 16, pf |-> rule, fl |-> 1, ss |-> FALSE]
MU(n, b) == [fam |-> "shamb", L |-> n, blk |-> b, pf |-> "", fl |-> 1, ss |-> FALSE]
CbcUnits == {"cbc16", "cbc24", "cbc32"}
CfbUnits == {"cfb16", "cfb24", "cfb32"}
DesUnits == {"des_e", "des_d", "des3_e", "des3_d"}
UnitNames == CbcUnits \cup CfbUnits \cup DesUnits \cup {"hmac1", "hmac224", "hmac256", "hmac384", "hmac512", "hmacmd5"}
             \cup {"zuc128", "zuc256", "cbcs", "zuceia3_128", "zuceia3_256", "zuceia3_256_8", "zuceia3_256_16", "snow3g", "snow3g_uia2"} \cup {"ccm128", "ccm256"} \cup {"docsis128", "docsis256", "docsis128crc", "docsis256crc", "docsisdes_e", "docsisdes_d"} \cup {"xcbc", "cmac128", "cmac256"} \cup {"sha1", "sha224", "sha256", "sha384", "sha512"}
UnitsFor ==
    [un \in UnitNames |->
       CASE un \in CbcUnits -> SU(IF Variant = "avx512_t2" THEN 16 ELSE 8)
         [] un \in CfbUnits -> SU(IF Variant = "avx512_t2" THEN 16 ELSE 1)
         [] un \in DesUnits -> SU(IF Avx512 THEN 16 ELSE 1)
         [] un = "hmac1" ->
                HU(IF Avx512 THEN 16 ELSE IF Avx2 THEN 8 ELSE IF Variant = "sse_t1" THEN 4 ELSE 2, 64)
         [] un \in {"hmac224", "hmac256"} ->
                HU(IF Avx512 THEN 16 ELSE IF ShaNi THEN 2 ELSE IF Avx2 THEN 8 ELSE 4, 64)
         [] un \in {"docsis128crc", "docsis256crc"} /\ Avx512 -> DU(IF Variant = "avx512_t2" THEN 16 ELSE 8, 16, FALSE)  \* CRC and cipher share the lanes: every job takes one
         [] un \in {"docsis128", "docsis256", "docsis128crc", "docsis256crc"} -> DU(IF Variant = "avx512_t2" THEN 16 ELSE 8, 16, TRUE)   \* AES-CBC lanes, encrypt
         [] un \in {"docsisdes_e", "docsisdes_d"} -> DU(IF Avx512 THEN 16 ELSE 1, 8, FALSE)
         [] un = "cbcs" -> (IF Variant = "avx512_t2" THEN CU(12, "") ELSE IF Avx512 \/ Avx2 THEN CU(8, "") ELSE CU(4, "tienew"))
         [] un \in {"zuceia3_128", "zuceia3_256", "zuceia3_256_8", "zuceia3_256_16"} -> (IF Avx512 THEN AU(16, 32) ELSE IF Avx2 THEN AU(8, 65536) ELSE AU(4, 65536))
         [] un = "snow3g" -> SU(IF Avx512 THEN 16 ELSE 4)      \* lane length = clocks: 32 + 1 initialisation clocks + key-stream words
         [] un = "snow3g_uia2" -> QU(IF Avx512 THEN 16 ELSE 4)
         [] un \in {"zuc128", "zuc256"} -> ZU(IF Avx512 THEN 16 ELSE IF Avx2 THEN 8 ELSE 4)
         [] un = "sha1" -> MU(IF Avx512 THEN 16 ELSE IF Avx2 THEN 8 ELSE IF Variant = "sse_t1" THEN 4 ELSE 2, 64)
         [] un \in {"sha224", "sha256"} -> MU(IF Avx512 THEN 16 ELSE IF ShaNi THEN 2 ELSE IF Avx2 THEN 8 ELSE 4, 64)
         [] un \in {"sha384", "sha512"} -> MU(IF Avx512 THEN 8 ELSE IF Avx2 THEN 4 ELSE 2, 128)
         [] un \in {"ccm128", "ccm256"} -> PU(IF Variant = "avx512_t2" THEN 16 ELSE 8, "ccm")
         [] un = "xcbc" -> PU(IF Variant = "avx512_t2" THEN 16 ELSE IF Avx512 \/ Avx2 THEN 8 ELSE 4, "xcbc")
         [] un \in {"cmac128", "cmac256"} -> PU(IF Variant = "avx512_t2" THEN 16 ELSE 8, "cmac")
         [] un \in {"hmac384", "hmac512"} -> HU(IF Avx512 THEN 8 ELSE IF Avx2 THEN 4 ELSE 2, 128)
         [] OTHER -> HU(IF Avx512 \/ Avx2 THEN 16 ELSE 8, 64)]          \* HMAC-MD5

CO == INSTANCE ChainOps WITH U <- UnitsFor, Fuel <- 2000, LogStages <- FALSE, LegacyCustomFlush <- FALSE

\* suite [mode, klen, dir, hash, order] -> units.  Modes: 1 CBC, 2 CTR, 3 NULL, 6 CUSTOM, 7 DES, 10 3DES, 12 ECB, 14 ZUC-EEA3, 26 CFB;
\* hashes 1..5 HMAC-SHA1/224/256/384/512, 7 HMAC-MD5, 6 XCBC, 12/18 CMAC(-bitlen), 27 CMAC-256, 13..17 plain SHA-1/224/256/384/512, 8 NULL; direction 1 encrypt; order 2 = hash then cipher
KeyTag(k) == CASE k = 16 -> "16" [] k = 24 -> "24" [] OTHER -> "32"
CipherUnit(su, cadj) ==
    CASE su[1] = 15 -> (IF cadj = 0 THEN "snow3g" ELSE "sync")     \* SNOW3G-UEA2: whole bytes only go through the lanes
      [] su[1] = 1 /\ su[3] = 1 -> (CASE su[2] = 16 -> "cbc16" [] su[2] = 24 -> "cbc24" [] OTHER -> "cbc32")
      [] su[1] = 26 /\ su[3] = 1 -> (CASE su[2] = 16 -> "cfb16" [] su[2] = 24 -> "cfb24" [] OTHER -> "cfb32")
      [] su[1] = 7 -> (IF su[3] = 1 THEN "des_e" ELSE "des_d")
      [] su[1] = 10 -> (IF su[3] = 1 THEN "des3_e" ELSE "des3_d")
      [] su[1] = 6 -> "custom"
      [] su[1] = 14 -> (IF su[2] = 16 THEN "zuc128" ELSE "zuc256")
      [] su[1] = 4 /\ su[3] = 1 /\ su[4] # 21 -> (IF su[2] = 16 THEN "docsis128" ELSE "docsis256")
      [] su[1] = 4 /\ su[3] = 1 /\ su[4] = 21 -> (IF su[2] = 16 THEN "docsis128crc" ELSE "docsis256crc")   \* with CRC32: managers of their own
      [] su[1] = 17 /\ su[3] = 1 -> "cbcs"
      [] su[1] = 8 -> (IF su[3] = 1 THEN "docsisdes_e" ELSE "docsisdes_d")
      [] OTHER -> "sync"
HashUnit(su, tag) ==
    CASE su[4] = 1 -> "hmac1" [] su[4] = 2 -> "hmac224" [] su[4] = 3 -> "hmac256" [] su[4] = 4 -> "hmac384"
      [] su[4] = 5 -> "hmac512" [] su[4] = 7 -> "hmacmd5" [] su[4] = 6 -> "xcbc"
      [] su[4] \in {12, 18} -> "cmac128" [] su[4] = 27 -> "cmac256"
      [] su[4] = 10 -> "custom"
      [] su[4] = 22 -> "snow3g_uia2"
      [] su[4] = 20 -> "zuceia3_128" [] su[4] = 31 -> (CASE tag = 8 -> "zuceia3_256_8" [] tag = 16 -> "zuceia3_256_16" [] OTHER -> "zuceia3_256")   \* a manager per tag length
      [] su[4] = 11 -> (IF su[2] = 16 THEN "ccm128" ELSE "ccm256")         \* AES-CCM: CBC-MAC lanes, the CTR part is synchronous
      [] su[4] = 13 -> "sha1" [] su[4] = 14 -> "sha224" [] su[4] = 15 -> "sha256" [] su[4] = 16 -> "sha384" [] su[4] = 17 -> "sha512"
      [] OTHER -> "sync"
\* the bit-length hash lanes select by length in bits
BitHash(su) == su[4] \in {20, 22, 31}
HLen(su, hlen, adj) == IF BitHash(su) THEN hlen * 8 - adj ELSE hlen
CLen(su, len) == IF su[1] = 15 THEN 33 + (len + 3) \div 4 ELSE len
InfoOf(t) == [cu |-> CipherUnit(t.su, IF "cadj" \in DOMAIN t THEN t.cadj ELSE 0), cfu |-> CipherUnit(t.su, 0), hu |-> HashUnit(t.su, IF "taglen" \in DOMAIN t THEN t.taglen ELSE 0), hc |-> t.su[5] = 2, len |-> CLen(t.su, t.len),
              hlen |-> HLen(t.su, t.hlen, IF "hadj" \in DOMAIN t THEN t.hadj ELSE 0),
              cf |-> IF "cfail" \in DOMAIN t THEN t.cfail ELSE 0,
              aad |-> IF "aadlen" \in DOMAIN t THEN t.aadlen ELSE 0]

VARIABLES cm,     \* machine state of ChainOps
          cinfo   \* job table
cvars2 == <<tvars, cm, cinfo>>

Ids(S) == { j - 1 : j \in S }
Done(ms) == (ms.cd \cap ms.ad) \cup ms.failed

\* the model's completions of a call against the recorded ones; a disagreement is printed (it is what one needs to see)
Agree(ok, predicted, recorded) ==
    \/ ok /\ predicted = recorded
    \/ PrintT(<<"LEVEL_B_DISAGREES_AT_LINE", l, "predicted", predicted, "recorded", recorded, "loops_end", ok>>) /\ FALSE

\* submit_burst_and_check: submit_new_burst_job for every job of the burst, in order
RECURSIVE SubmitAll(_, _, _, _)
SubmitAll(inf, acc, ids, i) ==
    IF i > Len(ids) \/ ~ acc.ok THEN acc
    ELSE SubmitAll(inf, CO!SubmitNew(inf, acc.ms, ids[i] + 1), ids, i + 1)
\* FLUSH_BURST: complete_burst_job for the first n jobs of the queue, oldest first
RECURSIVE CompleteAll(_, _, _, _, _)
CompleteAll(inf, acc, pend, i, n) ==
    IF i > n \/ ~ acc.ok THEN acc
    ELSE CompleteAll(inf, CO!CompleteJob(inf, acc.ms, pend[i], 2000), pend, i + 1, n)

ChainStep ==
    LET t == Tr[l] m == M(t) IN
    CASE t.e \in {"Reset", "Reinit"} -> cm' = CO!EmptyMachine /\ cinfo' = <<>>
      [] t.e = "SubmitJob" ->
            IF t.valid = 0 THEN (LaneStrict => t.done = <<>>) /\ UNCHANGED <<cm, cinfo>>
            ELSE LET j == t.id + 1
                     inf == [k \in DOMAIN cinfo \cup {j} |-> IF k = j THEN InfoOf(t) ELSE cinfo[k]]
                     r1 == CO!SubmitNew(inf, cm, j)
                     nx == Adv(next[m], 1)
                     full == earliest[m] >= 0 /\ earliest[m] = nx
                     tgt == slot[m][earliest[m]].id + 1
                     r2 == IF r1.ok /\ full THEN CO!CompleteJob(inf, r1.ms, tgt, 2000) ELSE r1
                 IN /\ cinfo' = inf
                    /\ cm' = r2.ms
                    /\ LaneStrict => Agree(r2.ok, Ids(Done(r2.ms) \ Done(cm)), ToSet(t.done))
      [] t.e = "FlushJob" ->
            IF earliest[m] < 0 THEN (LaneStrict => t.done = <<>>) /\ UNCHANGED <<cm, cinfo>>
            ELSE LET r == CO!CompleteJob(cinfo, cm, slot[m][earliest[m]].id + 1, 2000) IN
                 /\ cm' = r.ms /\ UNCHANGED cinfo
                 /\ LaneStrict => Agree(r.ok, Ids(Done(r.ms) \ Done(cm)), ToSet(t.done))
      [] t.e = "SubmitBurst" ->
            IF t.rejected = 1 \/ Len(t.ids) = 0 THEN (LaneStrict => t.done = <<>>) /\ UNCHANGED <<cm, cinfo>>
            ELSE LET k == Len(t.ids)
                     inf == [j \in DOMAIN cinfo \cup { t.ids[i] + 1 : i \in 1 .. k } |->
                               IF j \in DOMAIN cinfo THEN cinfo[j]
                               ELSE LET i == CHOOSE i \in 1 .. k : t.ids[i] + 1 = j IN
                                    [cu |-> CipherUnit(t.sus[i], IF "cadjs" \in DOMAIN t THEN t.cadjs[i] ELSE 0), cfu |-> CipherUnit(t.sus[i], 0), hu |-> HashUnit(t.sus[i], IF "taglens" \in DOMAIN t THEN t.taglens[i] ELSE 0), hc |-> t.sus[i][5] = 2,
                                     len |-> CLen(t.sus[i], t.lens[i]), hlen |-> HLen(t.sus[i], t.hlens[i], IF "hadjs" \in DOMAIN t THEN t.hadjs[i] ELSE 0),
                                     cf |-> IF "cfails" \in DOMAIN t THEN t.cfails[i] ELSE 0,
                                     aad |-> IF "aadlens" \in DOMAIN t THEN t.aadlens[i] ELSE 0]]
                     r1 == SubmitAll(inf, [ms |-> cm, ok |-> TRUE], t.ids, 1)
                     pend == [i \in 1 .. Len(pending[m]) |-> pending[m][i] + 1] \o [i \in 1 .. k |-> t.ids[i] + 1]
                     lead == Head(pend) \in Done(r1.ms)
                     wrapped == Len(pend) = N                       \* earliest_job == next_job after the submissions
                     r2 == IF r1.ok /\ wrapped /\ ~ lead THEN CompleteAll(inf, r1, pend, 1, k) ELSE r1
                 IN /\ cinfo' = inf
                    /\ cm' = r2.ms
                    /\ LaneStrict => Agree(r2.ok, Ids(Done(r2.ms) \ Done(cm)), ToSet(t.done))
      [] t.e = "FlushBurst" ->
            LET pend == [i \in 1 .. Len(pending[m]) |-> pending[m][i] + 1]
                n == IF Len(pend) < t.max THEN Len(pend) ELSE t.max
                r == CompleteAll(cinfo, [ms |-> cm, ok |-> TRUE], pend, 1, n)
            IN /\ cm' = r.ms /\ UNCHANGED cinfo
               /\ LaneStrict => Agree(r.ok, Ids(Done(r.ms) \ Done(cm)), ToSet(t.done))
      [] OTHER -> UNCHANGED <<cm, cinfo>>

CInit2 == TraceInit /\ cm = CO!EmptyMachine /\ cinfo = <<>>
CNext2 == TraceNext /\ ChainStep
CSpec2 == CInit2 /\ [][CNext2]_cvars2
=============================================================================
