------------------------------ MODULE CpuSelect ------------------------------
(***************************************************************************)
(* Variant selection of intel-ipsec-mb (C08, selection half): which        *)
(* implementation a manager is bound to as a function of the CPU features, *)
(* the IMB_FLAG_* flags and the init function.  Anchors:                   *)
(* lib/{sse_t1/mb_mgr_sse.c, avx2_t1/mb_mgr_avx2.c,                        *)
(* avx512_t1/mb_mgr_avx512.c}, lib/x86_64/{mb_mgr_auto.c, cpu_feature.c},  *)
(* IMB_CPUFLAGS_* in intel-ipsec-mb.h.                                     *)
(* Feature sets are integers (bit masks, IMB_FEATURE_* values).            *)
(***************************************************************************)
EXTENDS Naturals, Integers, FiniteSets

Pow2(k) == 2 ^ k
Bit(x, k) == (x \div Pow2(k)) % 2 = 1
\* features as bit positions
SHANI == 0  AESNI == 1  PCLMUL == 2  CMOV == 3  SSE42 == 4  AVX == 5  AVX2 == 6  AVX512F == 7
AVX512DQ == 8  AVX512CD == 9  AVX512BW == 10  AVX512VL == 11  VAES == 12  VPCLMUL == 13  GFNI == 16
AVX512IFMA == 17  BMI2 == 18  AVXIFMA == 21  SM3NI == 23  SM4NI == 24  SHA512NI == 25  XSAVE == 26
OSXSAVE == 27

HasAll(x, S) == \A k \in S : Bit(x, k)

ReqSSE == {SSE42, CMOV, AESNI, PCLMUL}
ReqSSE_T2 == ReqSSE \cup {SHANI}
ReqSSE_T3 == ReqSSE_T2 \cup {GFNI}
ReqAVX2 == ReqSSE \cup {AVX, XSAVE, OSXSAVE, AVX2, BMI2}
ReqAVX2_T2 == ReqAVX2 \cup {SHANI, VAES, VPCLMUL, GFNI}
ReqAVX2_T3 == ReqAVX2_T2 \cup {AVXIFMA}
ReqAVX2_T4 == ReqAVX2_T3 \cup {SM3NI, SM4NI, SHA512NI}
ReqAVX512 == ReqAVX2 \cup {AVX512F, AVX512DQ, AVX512CD, AVX512BW, AVX512VL}
ReqAVX512_T2 == ReqAVX512 \cup {VAES, VPCLMUL, GFNI, AVX512IFMA, SHANI}

FLAG_SHANI_OFF == 1
FLAG_GFNI_OFF == 2

\* cpu_feature_adjust(): the flags only remove SHANI / GFNI
Clear(x, k) == IF Bit(x, k) THEN x - Pow2(k) ELSE x
Adjust(flags, feat) ==
    LET a == IF flags % 2 = 1 THEN Clear(feat, SHANI) ELSE feat
    IN IF (flags \div 2) % 2 = 1 THEN Clear(a, GFNI) ELSE a

ERR_MISSING == 2045
MISSING == [arch |-> 0, type |-> 0, err |-> ERR_MISSING]
Sel(a, t) == [arch |-> a, type |-> t, err |-> 0]

\* arch numbers: 1 SSE, 2 AVX2, 3 AVX512 (IMB_ARCH_*)
InitSSE(f) ==
    IF ~HasAll(f, ReqSSE) THEN MISSING
    ELSE IF HasAll(f, ReqSSE_T3) THEN Sel(1, 3)
    ELSE IF HasAll(f, ReqSSE_T2) THEN Sel(1, 2) ELSE Sel(1, 1)
InitAVX2(f) ==
    IF ~HasAll(f, ReqAVX2) THEN MISSING
    ELSE IF HasAll(f, ReqAVX2_T4) THEN Sel(2, 4)
    ELSE IF HasAll(f, ReqAVX2_T3) THEN Sel(2, 3)
    ELSE IF HasAll(f, ReqAVX2_T2) THEN Sel(2, 2) ELSE Sel(2, 1)
InitAVX512(f) ==
    IF ~HasAll(f, ReqAVX512) THEN MISSING
    ELSE IF HasAll(f, ReqAVX512_T2) THEN Sel(3, 2) ELSE Sel(3, 1)
InitAuto(f) ==
    IF HasAll(f, ReqAVX512) THEN InitAVX512(f)
    ELSE IF HasAll(f, ReqAVX2) THEN InitAVX2(f)
    ELSE IF HasAll(f, ReqSSE) THEN InitSSE(f) ELSE MISSING

\* init: 0 sse, 1 avx2, 2 avx512, 3 auto ; feat = detected features, flags = IMB_FLAG_*
Select(init, feat, flags) ==
    LET f == Adjust(flags, feat) IN
    CASE init = 0 -> InitSSE(f) [] init = 1 -> InitAVX2(f) [] init = 2 -> InitAVX512(f)
      [] OTHER -> InitAuto(f)

Required(s) ==
    CASE s.arch = 1 /\ s.type = 1 -> ReqSSE [] s.arch = 1 /\ s.type = 2 -> ReqSSE_T2
      [] s.arch = 1 /\ s.type = 3 -> ReqSSE_T3 [] s.arch = 2 /\ s.type = 1 -> ReqAVX2
      [] s.arch = 2 /\ s.type = 2 -> ReqAVX2_T2 [] s.arch = 2 /\ s.type = 3 -> ReqAVX2_T3
      [] s.arch = 2 /\ s.type = 4 -> ReqAVX2_T4 [] s.arch = 3 /\ s.type = 1 -> ReqAVX512
      [] s.arch = 3 /\ s.type = 2 -> ReqAVX512_T2 [] OTHER -> {}

-----------------------------------------------------------------------------
(* design-level properties over a family of feature sets (see MC_CpuSelect) *)
\* nothing is selected whose required CPU features are absent (after the flags)
NeverUnsupported(F) ==
    \A feat \in F, flags \in 0 .. 3, init \in 0 .. 3 :
        LET s == Select(init, feat, flags) IN
        s.err = 0 => HasAll(Adjust(flags, feat), Required(s))
\* the flags never add a feature and only ever remove SHANI / GFNI
FlagsOnlyRemove(F) ==
    \A feat \in F, flags \in 0 .. 3 :
        \A k \in 0 .. 27 : Bit(Adjust(flags, feat), k) =>
            (Bit(feat, k) /\ ~(k = SHANI /\ flags % 2 = 1) /\ ~(k = GFNI /\ (flags \div 2) % 2 = 1))
\* auto picks the widest architecture whose explicit init would succeed
AutoPicksBest(F) ==
    \A feat \in F, flags \in 0 .. 3 :
        LET a == Select(3, feat, flags) IN
        /\ (Select(2, feat, flags).err = 0) => a = Select(2, feat, flags)
        /\ (Select(2, feat, flags).err # 0 /\ Select(1, feat, flags).err = 0) => a = Select(1, feat, flags)
        /\ (\A i \in 0 .. 2 : Select(i, feat, flags).err # 0) <=> a.err # 0
=============================================================================
