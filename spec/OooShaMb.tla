------------------------------- MODULE OooShaMb -------------------------------
(***************************************************************************)
(* Level B: the plain SHA-1/224/256/384/512 multi-buffer manager, written  *)
(* in C (lib/include/sha_mb_mgr.h, submit_flush_job_sha_1/_256/_512).      *)
(* Unlike the assembly managers it keeps byte lengths: the lane with the   *)
(* smallest byte length is selected (lowest index first), every lane is    *)
(* advanced by that length rounded DOWN to whole blocks, the remainder of  *)
(* the selected lane goes into its extra block(s) together with the        *)
(* padding (two blocks when the remainder leaves no room for 0x80 + the    *)
(* length field), and the do-while loop re-selects until the selected lane *)
(* has nothing left.                                                       *)
(***************************************************************************)
EXTENDS Naturals, Sequences, FiniteSets

CONSTANTS L,      \* max_jobs
          BLK,    \* 64 or 128
          PAD,    \* pad_size: 8 (SHA-1/224/256) or 16 (SHA-384/512); two extra blocks when r >= BLK - PAD
          BIG     \* stands for UINT64_MAX

Lanes == 0 .. L - 1
NOJOB == 0

EmptyLanes ==
    [stack |-> [i \in 1 .. L |-> i - 1],
     jil   |-> [l \in Lanes |-> NOJOB],
     lens  |-> [l \in Lanes |-> 0],
     extra |-> [l \in Lanes |-> 0]]

Busy(st) == { l \in Lanes : st.jil[l] # NOJOB }
MinOf(f) == CHOOSE v \in { f[l] : l \in Lanes } : \A l \in Lanes : v <= f[l]
ArgMin(f) == LET m == MinOf(f) IN CHOOSE l \in Lanes : f[l] = m /\ \A k \in Lanes : f[k] = m => l <= k

RECURSIVE Loop(_, _)
Loop(st0, flush) ==
    LET st1 == IF flush THEN [st0 EXCEPT !.lens = [l \in Lanes |-> IF st0.jil[l] = NOJOB THEN BIG ELSE st0.lens[l]]]
               ELSE st0
        idx == ArgMin(st1.lens)
        mn  == st1.lens[idx]
        mnb == (mn \div BLK) * BLK
        r   == mn % BLK
        ex  == IF r >= BLK - PAD THEN 2 ELSE st1.extra[idx]
        ln2 == [l \in Lanes |-> st1.lens[l] - mnb]
        st2 == IF ex # 0
               THEN [st1 EXCEPT !.lens = [ln2 EXCEPT ![idx] = ex * BLK], !.extra[idx] = 0]     \* create_extra_blocks
               ELSE [st1 EXCEPT !.lens = ln2]
    IN IF st2.lens[idx] # 0 THEN Loop(st2, flush)
       ELSE [st |-> [st2 EXCEPT !.jil[idx] = NOJOB, !.stack = <<idx>> \o st2.stack], ret |-> st2.jil[idx]]

OSubmit(st, j, len) ==
    LET lane == Head(st.stack)
        st1 == [st EXCEPT !.stack = Tail(st.stack), !.jil[lane] = j, !.lens[lane] = len, !.extra[lane] = 1]
    IN IF st1.stack # <<>> THEN [st |-> st1, ret |-> NOJOB] ELSE Loop(st1, FALSE)

OFlush(st) == IF Busy(st) = {} THEN [st |-> st, ret |-> NOJOB] ELSE Loop(st, TRUE)
=============================================================================
