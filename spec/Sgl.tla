-------------------------------- MODULE Sgl --------------------------------
(***************************************************************************)
(* Streaming / scatter-gather contexts of intel-ipsec-mb (C10).            *)
(*                                                                         *)
(* A message is the sequence of byte positions 0 .. L-1.  The keystream    *)
(* generator is abstract: output position i must be produced from          *)
(* keystream block i \div KB at offset i % KB (KB = 64 for ChaCha20, 16    *)
(* for AES-CTR inside GCM).  The authenticator consumes positions in       *)
(* 16-byte blocks; bytes that do not yet fill a block wait in a scratch    *)
(* buffer carried in the context.  Update(n) is transcribed branch by      *)
(* branch from update_chacha20_poly1305_direct() (lib/x86_64/              *)
(* chacha20_poly1305.c: bytes_to_copy, the `== 16' flush, the clamp to     *)
(* multiples of 16, the tail copy) and from the partial-block logic of     *)
(* the GCM update routines (gcm_*.inc: PARTIAL_BLOCK, in_length,           *)
(* partial_block_length, counter).                                         *)
(*                                                                         *)
(* TLC establishes that the context after any segmentation of a prefix is  *)
(* a function of the prefix length only, that the authenticator is fed     *)
(* exactly positions 0..L-1 once and in order, and that every output       *)
(* position uses the right keystream byte.                                 *)
(***************************************************************************)
EXTENDS Naturals, Sequences, FiniteSets

CONSTANTS L,    \* maximum total message length explored
          KB    \* keystream block size: 64 (ChaCha20-Poly1305) or 16 (GCM)

VARIABLES
    phase,      \* "init" | "upd" | "fin"
    pos,        \* bytes consumed so far
    rct,        \* bytes waiting in the MAC scratch buffer (remain_ct_bytes / partial_block_length)
    scratch,    \* the positions waiting there, in order
    macfed,     \* positions handed to the authenticator so far, in order
    hashlen,    \* accumulated message length (hash_len / in_length)
    ksblocks,   \* keystream blocks generated so far (last_block_count / counter - J0)
    rks,        \* unused bytes left of the last keystream block (remain_ks_bytes)
    out         \* function position -> <<keystream block, offset>> actually used

vars == <<phase, pos, rct, scratch, macfed, hashlen, ksblocks, rks, out>>

Min(a, b) == IF a < b THEN a ELSE b
Range(a, n) == [k \in 1 .. n |-> a + k - 1]            \* positions a .. a+n-1 as a sequence

Init ==
    /\ phase = "init" /\ pos = 0 /\ rct = 0 /\ scratch = <<>> /\ macfed = <<>>
    /\ hashlen = 0 /\ ksblocks = 0 /\ rks = 0 /\ out = <<>>

InitCtx == phase = "init" /\ phase' = "upd" /\ UNCHANGED <<pos, rct, scratch, macfed, hashlen, ksblocks, rks, out>>

\* keystream for n bytes starting at pos: first the rest of the pending block, then new blocks
KsFor(n) ==
    LET fromOld == Min(n, rks)
        rest == n - fromOld
        newBlocks == (rest + KB - 1) \div KB
        lastUsed == rest % KB
    IN [i \in 1 .. n |->
          IF i <= fromOld THEN <<ksblocks - 1, KB - rks + i - 1>>
          ELSE <<ksblocks + ((i - fromOld - 1) \div KB), (i - fromOld - 1) % KB>>]

Update(n) ==
    /\ phase = "upd" /\ pos + n <= L
    /\ LET rtf == 16 - rct
           btc == IF rct > 0 /\ rtf > 0 THEN Min(n, rtf) ELSE 0    \* bytes_to_copy
           scr1 == scratch \o Range(pos, btc)
           rct1 == rct + btc
           flush == rct1 = 16
           mac1 == IF flush THEN macfed \o scr1 ELSE macfed
           scr2 == IF flush THEN <<>> ELSE scr1
           rct2 == IF flush THEN 0 ELSE rct1
           length == n - btc
           rem == length % 16                                       \* HASH_REMAIN_CLAMP
           full == length - rem                                     \* HASH_LEN_CLAMP
           mac2 == mac1 \o Range(pos + btc, full)
           \* the tail is copied to the START of the scratch buffer
           scr3 == IF rem > 0 THEN Range(pos + btc + full, rem) ELSE scr2
           fromOld == Min(n, rks)
           rest == n - fromOld
           ks == KsFor(n)
       IN
       /\ macfed' = mac2
       /\ scratch' = scr3
       /\ rct' = rct2 + rem
       /\ hashlen' = hashlen + n
       /\ out' = out \o ks
       /\ ksblocks' = ksblocks + ((rest + KB - 1) \div KB)
       /\ rks' = IF rest = 0 THEN rks - fromOld ELSE (KB - (rest % KB)) % KB
       /\ pos' = pos + n
    /\ UNCHANGED phase

Finalize ==
    /\ phase = "upd"
    /\ macfed' = IF rct > 0 THEN macfed \o scratch ELSE macfed
    /\ rct' = 0 /\ scratch' = <<>>
    /\ phase' = "fin"
    /\ UNCHANGED <<pos, hashlen, ksblocks, rks, out>>

Next == InitCtx \/ (\E n \in 0 .. L : Update(n)) \/ Finalize
Spec == Init /\ [][Next]_vars

-----------------------------------------------------------------------------
\* the context is a function of the number of bytes consumed, whatever the segmentation
CtxIsFunctionOfPos ==
    phase = "upd" =>
        /\ hashlen = pos
        /\ rct = pos % 16
        /\ Len(scratch) = rct
        /\ rks = (KB - (pos % KB)) % KB
        /\ ksblocks = (pos + KB - 1) \div KB

\* the authenticator sees positions 0 .. in order, once each, in full blocks until finalisation
MacInputPrefix ==
    /\ macfed \o scratch = Range(0, pos)
    /\ phase = "upd" => Len(macfed) % 16 = 0
MacInputExact == phase = "fin" => macfed = Range(0, pos)

\* output position i is ciphered with keystream byte i
OutputExact == \A i \in 1 .. Len(out) : out[i] = <<(i - 1) \div KB, (i - 1) % KB>>

Inv == CtxIsFunctionOfPos /\ MacInputPrefix /\ MacInputExact /\ OutputExact /\ Len(out) = pos
=============================================================================
