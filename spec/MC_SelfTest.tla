---------------------------- MODULE MC_SelfTest ----------------------------
EXTENDS SelfTest
MCTests == << [type |-> "KAT_Cipher", descr |-> "A", ncorrupt |-> 1],
              [type |-> "KAT_Cipher", descr |-> "B", ncorrupt |-> 1],
              [type |-> "KAT_Auth", descr |-> "C", ncorrupt |-> 1],
              [type |-> "KAT_Auth", descr |-> "D", ncorrupt |-> 2],
              [type |-> "KAT_AEAD", descr |-> "E", ncorrupt |-> 1],
              [type |-> "KAT_AEAD", descr |-> "F", ncorrupt |-> 1],
              [type |-> "KAT_AEAD", descr |-> "G", ncorrupt |-> 1] >>
=============================================================================
