-------------------------- MODULE Trace_DirectArgs --------------------------
(***************************************************************************)
(* C12, direct API: "direct-API functions given null ... arguments return  *)
(* without faulting and set the corresponding error code".  The recorded   *)
(* sweep (harness/drv_dargs.c) calls 89 direct functions once with valid   *)
(* arguments and once per pointer argument with that argument NULL.        *)
(* Specification: the valid call raises no error; a NULL pointer never     *)
(* faults, sets an error code that names a pointer of that role, and       *)
(* leaves every caller output buffer untouched.                            *)
(***************************************************************************)
EXTENDS Naturals, Sequences, FiniteSets, Json, IOUtils, TLC
Tr == ndJsonDeserialize(IOEnv.TRACE)
VARIABLES l, fns
vars == <<l, fns>>

\* IMB_ERR_NULL_SRC .. IMB_ERR_NULL_CTX
E_SRC == 2022  E_DST == 2023  E_KEY == 2024  E_EXP_KEY == 2025  E_IV == 2026  E_AUTH == 2027  E_AAD == 2028
E_AUTH_KEY == 2036  E_CTX == 2037
RoleCodes(r) ==
    CASE r = "src" -> {E_SRC}
      [] r = "dst" -> {E_DST, E_KEY, E_EXP_KEY}      \* an output that receives key material is reported as a key pointer
      [] r = "key" -> {E_KEY, E_EXP_KEY, E_AUTH_KEY}
      [] r = "expkey" -> {E_KEY, E_EXP_KEY}
      [] r = "iv" -> {E_IV}
      [] r = "aad" -> {E_AAD}
      [] r \in {"tag", "digest"} -> {E_AUTH}
      [] r = "ctx" -> {E_CTX}
      [] OTHER -> {}

Init == l = 1 /\ fns = {}
One == /\ l <= Len(Tr) /\ Tr[l].e = "DArg"
       /\ LET t == Tr[l] IN
          /\ t.fault = 0
          /\ IF t.arg < 0 THEN t.errno = 0
             ELSE t.errno \in RoleCodes(t.role) /\ t.untouched = 1
          /\ fns' = fns \cup {t.fn}
       /\ l' = l + 1
End == /\ l = Len(Tr) /\ Tr[l].e = "DArgEnd"
       /\ Cardinality(fns) = Tr[l].functions /\ Tr[l].functions >= 89 /\ Tr[l].n = l - 1
       /\ l' = l + 1 /\ UNCHANGED fns
Next == One \/ End
Spec == Init /\ [][Next]_vars
TraceAccepted ==
    LET d == TLCGet("stats").diameter IN
    IF d - 1 = Len(Tr) THEN TRUE
    ELSE /\ PrintT(<<"TRACE_REJECTED_AT_LINE", d, "OF", Len(Tr)>>)
         /\ FALSE
=============================================================================
