----------------------------- MODULE Trace_KeyRes -----------------------------
(***************************************************************************)
(* C13, last sentence: after each key-preparation helper returns, neither  *)
(* the raw key nor the derived key material is left in the registers or in *)
(* the dead stack (harness/drv_keyres.c: 21 helpers, and 9 direct cipher / *)
(* authentication calls with key and plaintext, through the scrubbing      *)
(* and dumping trampoline; 8-byte windows of the key and of the helper's   *)
(* outputs are searched in all vector and general-purpose registers and in *)
(* 16 KiB of stack below the caller).                                      *)
(***************************************************************************)
EXTENDS Naturals, Sequences, FiniteSets, Json, IOUtils, TLC
Tr == ndJsonDeserialize(IOEnv.TRACE)
VARIABLES l, fns
vars == <<l, fns>>
Init == l = 1 /\ fns = {}
One == /\ l <= Len(Tr) /\ Tr[l].e = "KeyRes"
       /\ Tr[l].res_reg = 0 /\ Tr[l].res_stk = 0 /\ Tr[l].abi = 0
       /\ fns' = fns \cup {Tr[l].fn} /\ l' = l + 1
End == /\ l = Len(Tr) /\ Tr[l].e = "KeyResEnd" /\ Tr[l].n = l - 1 /\ Cardinality(fns) >= 30
       /\ l' = l + 1 /\ UNCHANGED fns
Next == One \/ End
Spec == Init /\ [][Next]_vars
TraceAccepted ==
    LET d == TLCGet("stats").diameter IN
    IF d - 1 = Len(Tr) THEN TRUE
    ELSE /\ PrintT(<<"TRACE_REJECTED_AT_LINE", d, "OF", Len(Tr)>>)
         /\ FALSE
=============================================================================
