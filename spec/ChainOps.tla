------------------------------ MODULE ChainOps ------------------------------
(***************************************************************************)
(* Level B, chaining engine: lib/include/mb_mgr_job_api.h                  *)
(*     submit_new_job / RESUBMIT_JOB / complete_job                        *)
(* composed over the out-of-order units of OooLanes.tla (single-phase      *)
(* cipher lanes) and OooHmac.tla (multi-phase hash lanes) and over         *)
(* synchronous stages.  A job has a cipher stage and a hash stage, run in  *)
(* the order its chain_order says; each stage is served by a unit; a unit  *)
(* hands back at most one job per submit or flush, usually a different job *)
(* from the one just submitted; RESUBMIT_JOB moves whatever job came back  *)
(* to its next stage until a job falls out completed or a unit returns     *)
(* nothing.                                                                *)
(*                                                                         *)
(* Machine state  ms = [u  : unit name -> lane state,                      *)
(*                      cd : jobs whose cipher stage is done,              *)
(*                      ad : jobs whose hash stage is done,                *)
(*                      log: sequence of stage events (optional)]          *)
(* Job table      info[j] = [cu, hu : unit name or "sync",                 *)
(*                           hc : TRUE when the hash stage runs first,     *)
(*                           len, hlen]                                    *)
(* Unit table     U[name] = [fam : "simple"|"hmac"|"phased"|"shamb", L, blk, *)
(*                           pf : phase rule of a phased unit]; for a      *)
(*                  "simple" unit blk is the kernel granularity (1 or 4),  *)
(*                  fl the lane length granularity (1; 16 / 8 for DOCSIS:  *)
(*                  only whole blocks go through the lanes) and ss says    *)
(*                  whether a message below fl bypasses the lanes          *)
(***************************************************************************)
EXTENDS Naturals, Sequences, FiniteSets

CONSTANTS LegacyCustomFlush,   \* TRUE: FLUSH_JOB_CUSTOM_* hands the job back even when its custom stage already ran
                               \* (the library before the fix recorded in known_findings.json); FALSE: it returns NULL then
          U,        \* unit table
          Fuel,     \* bound on loop iterations (loops that exceed it are reported, see ok)
          LogStages \* keep the stage log (model checking) or not (trace replay)

OS(n, r, t) == INSTANCE OooLanes WITH L <- n, MAXLEN <- 65535, R <- r, TieNew <- t    \* t: pf = "tienew" (AES-CBCS 1:9 on SSE)
OH(n, b) == INSTANCE OooHmac WITH L <- n, MAXLEN <- 65535, BLK <- b,
                                  PADMIN <- IF b = 128 THEN 17 ELSE 9, Track <- FALSE
OP(n) == INSTANCE OooPhased WITH L <- n, MAXLEN <- 65535
OM(n, b) == INSTANCE OooShaMb WITH L <- n, BLK <- b, PAD <- IF b = 128 THEN 16 ELSE 8, BIG <- 2000000000
OQ(n) == INSTANCE OooInitQ WITH L <- n
NOJ == 0

\* phase lengths of a job in a "phased" unit (U[un].pf names the rule); len in bytes
CeilDiv(a, b) == (a + b - 1) \div b
\* drop empty phases: the managers skip them without re-selecting a lane
NonEmpty(seq) == SelectSeq(seq, LAMBDA x : x > 0)
PhasesOf(pf, len, aad) ==
    CASE pf = "ccm" -> \* AES-CCM authentication (mb_mgr_aes_ccm_submit_flush_*.inc): B0 (+ encoded AAD, padded), then the whole
                       \* message blocks, then the zero-padded partial block
                       <<IF aad = 0 THEN 16 ELSE 16 + CeilDiv(aad + 2, 16) * 16>> \o NonEmpty(<<(len \div 16) * 16, IF len % 16 = 0 THEN 0 ELSE 16>>)
      [] pf = "cmac" -> (IF len = 0 THEN <<16>> ELSE <<(CeilDiv(len, 16) - 1) * 16, 16>>)   \* message blocks, then M_last
      [] pf = "xcbc" -> (IF len <= 16 THEN <<0, 16>> ELSE <<(CeilDiv(len, 16) - 1) * 16, 16>>)
      [] OTHER -> <<len>>

UEmpty(un) == IF U[un].fam = "initq" THEN OQ(U[un].L)!EmptyLanes ELSE IF U[un].fam = "hmac" THEN OH(U[un].L, U[un].blk)!EmptyLanes
              ELSE IF U[un].fam = "phased" THEN OP(U[un].L)!EmptyLanes
              ELSE IF U[un].fam = "shamb" THEN OM(U[un].L, U[un].blk)!EmptyLanes ELSE OS(U[un].L, U[un].blk, U[un].pf = "tienew")!EmptyLanes
USubmit(un, st, j, len, aad) ==
    IF U[un].fam = "initq" THEN OQ(U[un].L)!OSubmit(st, j)
    ELSE IF U[un].fam = "phased" THEN LET r == OP(U[un].L)!OSubmit(st, j, PhasesOf(U[un].pf, len, aad)) IN [st |-> r.st, ret |-> r.ret]
    ELSE IF U[un].fam = "shamb" THEN LET r == OM(U[un].L, U[un].blk)!OSubmit(st, j, len) IN [st |-> r.st, ret |-> r.ret]
    ELSE IF U[un].fam = "hmac" THEN LET r == OH(U[un].L, U[un].blk)!OSubmit(st, j, len) IN [st |-> r.st, ret |-> r.ret]
    ELSE IF U[un].fl > 1 /\ len < U[un].fl /\ U[un].ss THEN [st |-> st, ret |-> j]      \* shorter than one block: never enters a lane
    ELSE LET r == OS(U[un].L, U[un].blk, U[un].pf = "tienew")!OSubmit(st, j, (len \div U[un].fl) * U[un].fl) IN [st |-> r.st, ret |-> r.ret]
UFlush(un, st) ==
    IF U[un].fam = "initq" THEN OQ(U[un].L)!OFlush(st)
    ELSE IF U[un].fam = "phased" THEN LET r == OP(U[un].L)!OFlush(st) IN [st |-> r.st, ret |-> r.ret]
    ELSE IF U[un].fam = "shamb" THEN LET r == OM(U[un].L, U[un].blk)!OFlush(st) IN [st |-> r.st, ret |-> r.ret]
    ELSE IF U[un].fam = "hmac" THEN LET r == OH(U[un].L, U[un].blk)!OFlush(st) IN [st |-> r.st, ret |-> r.ret]
    ELSE LET r == OS(U[un].L, U[un].blk, U[un].pf = "tienew")!OFlush(st) IN [st |-> r.st, ret |-> r.ret]
UBusyJobs(un, st) == { st.jil[l] : l \in 0 .. U[un].L - 1 } \ {NOJ}

EmptyMachine == [u |-> [un \in DOMAIN U |-> UEmpty(un)], cd |-> {}, ad |-> {}, failed |-> {}, log |-> <<>>]

Logged(ms, e) == IF LogStages THEN Append(ms.log, e) ELSE ms.log

\* a job is finished when both stages are done or when a CUSTOM call-back reported failure (status INTERNAL_ERROR:
\* RESUBMIT_JOB and complete_job treat every status >= COMPLETED as finished)
Completed(ms, j) == j \in ms.failed \/ (j \in ms.cd /\ j \in ms.ad)
\* info[j].cf : bit 0 = the custom cipher call-back fails, bit 1 = the custom hash call-back fails (0 otherwise)
CFails(info, j) == "cf" \in DOMAIN info[j] /\ info[j].cf % 2 = 1
HFails(info, j) == "cf" \in DOMAIN info[j] /\ info[j].cf \div 2 = 1
RunCustomC(info, ms, j) == IF CFails(info, j) THEN [ms EXCEPT !.failed = @ \cup {j}, !.log = Logged(ms, <<"c", j, j>>)]
                           ELSE [ms EXCEPT !.cd = @ \cup {j}, !.log = Logged(ms, <<"c", j, j>>)]
RunCustomH(info, ms, j) == IF HFails(info, j) THEN [ms EXCEPT !.failed = @ \cup {j}, !.log = Logged(ms, <<"h", j, j>>)]
                           ELSE [ms EXCEPT !.ad = @ \cup {j}, !.log = Logged(ms, <<"h", j, j>>)]

\* SUBMIT_JOB_CIPHER: a synchronous mode does the work and returns the job itself
SubCipher(info, ms, j) ==
    LET cu == info[j].cu IN
    IF cu = "custom" THEN [ms |-> RunCustomC(info, ms, j), ret |-> j]
    ELSE IF cu = "sync"
    THEN [ms |-> [ms EXCEPT !.cd = @ \cup {j}, !.log = Logged(ms, <<"c", j, j>>)], ret |-> j]
    ELSE LET r == USubmit(cu, ms.u[cu], j, info[j].len, 0) IN
         [ms |-> [ms EXCEPT !.u[cu] = r.st,
                            !.cd = IF r.ret = NOJ THEN @ ELSE @ \cup {r.ret},
                            !.log = Logged(ms, <<"c", j, r.ret>>)],
          ret |-> r.ret]

SubHash(info, ms, j) ==
    LET hu == info[j].hu IN
    IF hu = "custom" THEN [ms |-> RunCustomH(info, ms, j), ret |-> j]
    ELSE IF hu = "sync"
    THEN [ms |-> [ms EXCEPT !.ad = @ \cup {j}, !.log = Logged(ms, <<"h", j, j>>)], ret |-> j]
    ELSE LET r == USubmit(hu, ms.u[hu], j, info[j].hlen, IF "aad" \in DOMAIN info[j] THEN info[j].aad ELSE 0) IN
         [ms |-> [ms EXCEPT !.u[hu] = r.st,
                            !.ad = IF r.ret = NOJ THEN @ ELSE @ \cup {r.ret},
                            !.log = Logged(ms, <<"h", j, r.ret>>)],
          ret |-> r.ret]

\* FLUSH_JOB_CIPHER / FLUSH_JOB_HASH for the suite of job j (synchronous stages have nothing to flush)
\* (the flush goes by the cipher mode of the job: a job whose own stage ran outside the lanes - info[j].cu = "sync", e.g.
\* SNOW3G-UEA2 with a length that is not a whole number of bytes - still flushes the lanes of its mode, info[j].cfu)
FlCipher(info, ms, j) ==
    LET cu == IF "cfu" \in DOMAIN info[j] THEN info[j].cfu ELSE info[j].cu IN
    IF cu = "sync" THEN [ms |-> ms, ret |-> NOJ]
    ELSE IF cu = "custom"      \* FLUSH_JOB_CUSTOM_CIPHER(job): JOB_CUSTOM_CIPHER runs the call-back only if it has not run yet
    THEN (IF j \in ms.cd THEN [ms |-> ms, ret |-> IF LegacyCustomFlush THEN j ELSE NOJ]
          ELSE [ms |-> RunCustomC(info, ms, j), ret |-> j])
    ELSE LET r == UFlush(cu, ms.u[cu]) IN
         [ms |-> [ms EXCEPT !.u[cu] = r.st, !.cd = IF r.ret = NOJ THEN @ ELSE @ \cup {r.ret},
                            !.log = Logged(ms, <<"fc", j, r.ret>>)], ret |-> r.ret]
FlHash(info, ms, j) ==
    LET hu == info[j].hu IN
    IF hu = "sync" THEN [ms |-> ms, ret |-> NOJ]
    ELSE IF hu = "custom"
    THEN (IF j \in ms.ad THEN [ms |-> ms, ret |-> IF LegacyCustomFlush THEN j ELSE NOJ]
          ELSE [ms |-> RunCustomH(info, ms, j), ret |-> j])
    ELSE LET r == UFlush(hu, ms.u[hu]) IN
         [ms |-> [ms EXCEPT !.u[hu] = r.st, !.ad = IF r.ret = NOJ THEN @ ELSE @ \cup {r.ret},
                            !.log = Logged(ms, <<"fh", j, r.ret>>)], ret |-> r.ret]

\* RESUBMIT_JOB.  Result [ms, ok]; ok = FALSE when the loop did not end within Fuel rounds
RECURSIVE Resubmit(_, _, _, _)
Resubmit(info, ms, j, fuel) ==
    IF j = NOJ \/ Completed(ms, j) THEN [ms |-> ms, ok |-> TRUE]
    ELSE IF fuel = 0 THEN [ms |-> ms, ok |-> FALSE]
    ELSE IF j \in ms.ad
         THEN LET r == SubCipher(info, ms, j) IN Resubmit(info, r.ms, r.ret, fuel - 1)
         ELSE LET r == SubHash(info, ms, j) IN Resubmit(info, r.ms, r.ret, fuel - 1)   \* "assumed COMPLETED_CIPHER"

\* submit_new_job
SubmitNew(info, ms, j) ==
    LET r == IF info[j].hc THEN SubHash(info, ms, j) ELSE SubCipher(info, ms, j)
    IN Resubmit(info, r.ms, r.ret, Fuel)

\* complete_job: flush until job tgt has completed
RECURSIVE CompleteJob(_, _, _, _)
CompleteJob(info, ms, tgt, fuel) ==
    IF Completed(ms, tgt) THEN [ms |-> ms, ok |-> TRUE]
    ELSE IF fuel = 0 THEN [ms |-> ms, ok |-> FALSE]
    ELSE LET f1 == IF info[tgt].hc THEN FlHash(info, ms, tgt) ELSE FlCipher(info, ms, tgt)
             f2 == IF f1.ret # NOJ THEN f1
                   ELSE IF info[tgt].hc THEN FlCipher(info, f1.ms, tgt) ELSE FlHash(info, f1.ms, tgt)
             r  == Resubmit(info, f2.ms, f2.ret, Fuel)
         IN IF ~ r.ok THEN r
            ELSE IF f2.ret = NOJ /\ ~ Completed(r.ms, tgt)
                 THEN [ms |-> r.ms, ok |-> FALSE]          \* both units empty but the job is not done: the C loop spins
                 ELSE CompleteJob(info, r.ms, tgt, fuel - 1)

\* where is an unfinished job?  (used by invariants)
InUnit(ms, un, j) == j \in UBusyJobs(un, ms.u[un])
=============================================================================
