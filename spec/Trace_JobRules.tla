--------------------------- MODULE Trace_JobRules ---------------------------
(* Validates the recorded catalogue walk (harness/drv_invalid.c) against JobRules.tla. *)
EXTENDS JobRules, Json, IOUtils, TLC
Tr == ndJsonDeserialize(IOEnv.TRACE)
Kinds == ndJsonDeserialize(IOEnv.KINDS)
VARIABLE l

SuiteOfEv(t) == [mode |-> t.mode, klen |-> t.klen, dir |-> t.dir, hash |-> t.hash]
SuiteOfKind(k) == [mode |-> k.mode, klen |-> k.klen, dir |-> k.dir, hash |-> k.hash]

RECURSIVE SumRules(_)
SumRules(i) == IF i = 0 THEN 0 ELSE Cardinality(Rules(SuiteOfKind(Kinds[i]))) + SumRules(i - 1)

InvOK(t) ==
    /\ R(t.field, t.cls, t.exp) \in Rules(SuiteOfEv(t))   \* the test is an element of the catalogue
    /\ t.known = 1                                          \* and the harness implements it
    /\ t.base_st = 3 /\ t.base_errno = 0                    \* the valid baseline is accepted
    /\ t.st = 4                                             \* the violating job is handed back INVALID_ARGS
    /\ t.errno = t.exp                                      \* the error code names the violated constraint
    /\ t.untouched = 1                                      \* no caller buffer touched
    /\ t.qsz = 0
    /\ t.next_ok = 1                                        \* a later valid job is unaffected
    /\ t.bst = 4 /\ t.berrno = t.exp                        \* same through the checked burst call ...
    /\ t.bnret = 0 /\ t.bqsz = 0 /\ t.buntouched = 1        \* ... which refuses the burst, queue unchanged
    /\ t.abi = 0

\* scatter-gather suites (hand-built sessions in the driver): same verdicts, catalogue = SglRules
SglCount == LET F(mode) == Cardinality(SglRules(mode, "init")) + Cardinality(SglRules(mode, "update"))
                          + Cardinality(SglRules(mode, "complete")) + Cardinality(SglRules(mode, "all"))
            IN F(GCM_SGL) + F(CHAPOLY_SGL)
InvSglOK(t) ==
    /\ t.mode \in SglModes /\ t.state \in SglStates
    /\ R(t.field, t.cls, t.exp) \in SglRules(t.mode, t.state)
    /\ t.known = 1
    /\ t.base_st = 3 /\ t.base_errno = 0
    /\ t.st = 4 /\ t.errno = t.exp
    /\ t.untouched = 1 /\ t.qsz = 0 /\ t.next_ok = 1
    /\ t.abi = 0

\* misuse of the burst calls
E_NULL_JOB == 2046   E_BURST_OOO == 2050   E_BURST_SUITE_ID == 2052
MisuseOK(t) ==
    /\ t.bnret = 0 /\ t.bqsz = 0 /\ t.untouched = 1
    /\ CASE t.misuse \in {"stale_cipher", "stale_hash", "stale_both"} ->
                t.berrno = E_BURST_SUITE_ID /\ t.bst = 4
         [] t.misuse = "null_job" -> t.berrno = E_NULL_JOB
         [] t.misuse = "out_of_order" -> t.berrno = E_BURST_OOO /\ t.bst = 4
         [] OTHER -> FALSE

Init == l = 1
Next == /\ l <= Len(Tr) /\ l' = l + 1
        /\ \/ l = 1 /\ Tr[l].e = "InvBegin"
           \/ Tr[l].e = "Inv" /\ InvOK(Tr[l])
           \/ Tr[l].e = "BurstMisuse" /\ MisuseOK(Tr[l])
           \/ Tr[l].e = "InvSgl" /\ InvSglOK(Tr[l])
           \/ /\ Tr[l].e = "InvEnd"
              /\ Tr[l].n = SumRules(Len(Kinds))             \* every element of the catalogue was exercised
              /\ Tr[l].nsgl = SglCount
              /\ Tr[l].nb = 5 * Len(Kinds)
              /\ Tr[l].unknown = 0
Spec == Init /\ [][Next]_l
TraceAccepted ==
    LET d == TLCGet("stats").diameter IN
    IF d - 1 = Len(Tr) THEN TRUE
    ELSE /\ PrintT(<<"TRACE_REJECTED_AT_LINE", d, "OF", Len(Tr)>>)
         /\ FALSE
=============================================================================
