--------------------------- MODULE Trace_Dispatch ---------------------------
(***************************************************************************)
(* Validation of the recorded walk over all 21 952 suite cells             *)
(* (harness/drv_cells.c) against Dispatch.tla: session acceptance and      *)
(* suite identifiers, job-API and burst-API acceptance, the exact sequence *)
(* of stage submissions with the table rows used (stage hook), the         *)
(* composition oracle and burst/job agreement.                             *)
(***************************************************************************)
EXTENDS Dispatch, Json, IOUtils, TLC

Tr == ndJsonDeserialize(IOEnv.TRACE)
VARIABLE l

CellOf(t) == [mode |-> t.mode, klen |-> t.klen, dir |-> t.dir, hash |-> t.hash, order |-> t.order]

KIdx(klen) == (klen \div 8) - 1
\* position of a cell in the driver's enumeration order (1-based)
CellIndex(c) == ((((c.mode - 1) * 4 + KIdx(c.klen)) * 2 + (c.dir - 1)) * 49 + (c.hash - 1)) * 2 + (c.order - 1) + 1

\* every suite-level error the documented rules attach to the cell
\* PON: imb_set_session() does not look at the key size, the job check does (AES-128 only, when something is ciphered)
\* (AES-128 only, and only when something is ciphered: an XGEM header-only frame needs no key)
JobKeyOK(c, t) == (c.mode = PON /\ t.len > 0) => c.klen = 16
SuiteErrs(c) ==
    (IF ~KeyOK(c.mode, c.klen) \/ c.mode = PON THEN {ERR_KEY_LEN} ELSE {})
    \cup (IF PartnerHash(c.mode) # 0 /\ c.hash # PartnerHash(c.mode) THEN {ERR_HASH_ALGO} ELSE {})
    \cup (IF PartnerCipher(c.hash) # 0 /\ c.mode # PartnerCipher(c.hash) THEN {ERR_CIPH_MODE} ELSE {})
    \cup (IF ~OrderOK(c) THEN {ERR_CHAIN_ORDER} ELSE {})

\* stage hook kinds: 0 submit-cipher, 1 submit-hash, +8 when dispatched through suite_id[]
KindName(k) == IF k % 8 = 0 THEN "cipher" ELSE "hash"
Plan(stages) == [i \in 1 .. Len(stages) |-> <<KindName(stages[i][1]), stages[i][2]>>]
AllVia(stages, via) == \A i \in 1 .. Len(stages) : (stages[i][1] \div 8) = via

SessionOK(t, c) ==
    IF SuiteOK(c)
    THEN /\ t.sess_ok = 1 /\ t.sess_errno = 0
         /\ t.sid0 = CipherRow(c) /\ t.sid1 = HashRow(c)
    ELSE /\ t.sess_ok = 0
         /\ t.sess_errno = SuiteErr(c)

Executed(t, c) ==
    IF SuiteOK(c) /\ OrderOK(c) /\ JobKeyOK(c, t)
    THEN \* accepted: both entry points run exactly the planned stages on exactly the planned rows
         /\ t.st = 3 /\ t.errno = 0
         /\ PlanOK(c, Plan(t.stages)) /\ AllVia(t.stages, 0)
         /\ t.comp \in {-1, 0}            \* = cipher-only result and hash-only result composed per order
         /\ t.bst = 3 /\ t.berrno = 0
         /\ PlanOK(c, Plan(t.bstages)) /\ AllVia(t.bstages, 1)
         /\ t.bsid0 = CipherRow(c) /\ t.bsid1 = HashRow(c)
         /\ t.burst_eq = 1
         /\ t.abi = 0
         \* further valid shapes of the same cell (DOCSIS+CRC32: cipher without CRC, CRC without cipher):
         \* <<shape, job status, composition, burst status, burst = job>>
         /\ \A i \in 1 .. Len(t.shapes) :
               t.shapes[i][2] = 3 /\ t.shapes[i][3] = 0 /\ t.shapes[i][4] = 3 /\ t.shapes[i][5] = 1
    ELSE \* rejected: never processed, right error, buffers untouched
         /\ t.st = 4 /\ t.errno \in SuiteErrs(c)
         /\ t.stages = <<>>
         /\ t.untouched = 1
         /\ t.bst = 4 /\ t.berrno \in SuiteErrs(c)
         /\ t.bstages = <<>>

TCell ==
    /\ l <= Len(Tr) /\ Tr[l].e = "Cell" /\ l' = l + 1
    /\ LET t == Tr[l] c == CellOf(t) IN
       /\ c \in Cells
       /\ CellIndex(c) = l - 1             \* the walk visits every cell exactly once, in order
       /\ SessionOK(t, c)
       /\ t.built = 1 => Executed(t, c)

TBegin == l = 1 /\ Tr[1].e = "CellsBegin" /\ l' = 2
TEnd == /\ l = Len(Tr) /\ Tr[l].e = "CellsEnd" /\ l' = l + 1
        /\ Tr[l].cells = Cardinality(Cells)

Init == l = 1
Next == TBegin \/ TCell \/ TEnd
Spec == Init /\ [][Next]_l

TraceAccepted ==
    LET d == TLCGet("stats").diameter IN
    IF d - 1 = Len(Tr) THEN TRUE
    ELSE /\ PrintT(<<"TRACE_REJECTED_AT_LINE", d, "OF", Len(Tr)>>)
         /\ FALSE
=============================================================================
