-------------------------------- MODULE OooLanes --------------------------------
(***************************************************************************)
(* Level B: the out-of-order lane machine of one single-stage ("SIMPLE")   *)
(* multi-buffer manager, written to mirror the assembly                    *)
(*   lib/include/mb_mgr_aes_cbc_enc_submit_sse.inc  (SUBMIT_JOB_AES_ENC)   *)
(*   lib/include/mb_mgr_aes_cbc_enc_flush_sse.inc   (FLUSH_JOB_AES_ENC)    *)
(* and their AVX / AVX512 siblings: the nibble stack of unused lanes,      *)
(* job_in_lane[], lens[], the per-lane arguments (in/out/keys/IV), the     *)
(* min-length selection with lowest-index tie-break (phminposuw), flush    *)
(* copying the highest non-empty lane into the empty lanes with length     *)
(* MAX, and the kernel that advances every lane by the minimum.            *)
(*                                                                         *)
(* The lane machine is given as operators on a lane-state record so that   *)
(* (a) this module can model-check the design-level isolation properties   *)
(* (C04, scheduler half of C07) on small constants and (b) Trace_Ooo can   *)
(* replay recorded executions through exactly the same operators and       *)
(* compare the jobs the model completes in each call with the jobs the     *)
(* real lanes completed (fidelity; a mismatch is model drift).             *)
(***************************************************************************)
EXTENDS Naturals, Sequences, FiniteSets

CONSTANTS L,        \* number of lanes
          MAXLEN,   \* the "idle" length (0xFFFF in the code); larger than any job length
          TieNew,   \* FALSE: ties go to the lowest lane (phminposuw); TRUE: on submit the lane just filled wins a tie
                    \* (AES-CBCS 1:9: compare chain that starts from the new lane)
          R         \* granularity of the kernel: 1 for the block ciphers (lengths are whole blocks anyway); 4 for ZUC-EEA3,
                    \* whose kernel (asm_ZucCipher_N) rounds the minimum up to whole 32-bit keystream words, takes that off
                    \* every lane and clamps at 0 - a lane whose remainder is below the rounded minimum completes too

Lanes == 0 .. L - 1
NOJOB == 0          \* job ids are positive

\* lane state: stack of unused lanes (head = next lane handed out), job per lane, remaining length per
\* lane, and per-lane arguments: whose buffers / key the lane works on and how far it has got
EmptyLanes ==
    [stack |-> [i \in 1 .. L |-> i - 1],
     jil   |-> [l \in Lanes |-> NOJOB],
     lens  |-> [l \in Lanes |-> 0],
     args  |-> [l \in Lanes |-> [buf |-> NOJOB, pos |-> 0, key |-> NOJOB]]]

Busy(st) == { l \in Lanes : st.jil[l] # NOJOB }
MinOf(f, S) == CHOOSE v \in { f[l] : l \in S } : \A l \in S : v <= f[l]
\* phminposuw: lowest lane index among the lanes holding the minimum
ArgMin(f) == LET m == MinOf(f, Lanes) IN CHOOSE l \in Lanes : f[l] = m /\ \A k \in Lanes : f[k] = m => l <= k
MaxLane(S) == CHOOSE l \in S : \A k \in S : k <= l

\* "Find min length ... call kernel ... len_is_0: process completed job idx"
\* eff = the lengths the selection sees, st.args = the arguments the kernel will use
\* result: new state, the completed job and the minimum handed to the kernel
\* lane selected: pref is the lane just filled by a submit (or L: none)
Sel(eff, pref) == IF TieNew /\ pref \in Lanes /\ eff[pref] = MinOf(eff, Lanes) THEN pref ELSE ArgMin(eff)

Adv(st, eff, pref) ==
    LET idx == Sel(eff, pref)
        mn == eff[idx]
        mr == ((mn + R - 1) \div R) * R                       \* what the kernel takes off every lane
    \* bytes actually processed per lane (idle lanes duplicate a live lane for exactly the minimum)
    IN [l \in Lanes |-> IF st.jil[l] = NOJOB THEN mn ELSE IF eff[l] > mr THEN mr ELSE eff[l]]

Process(st, eff, pref) ==
    LET idx == Sel(eff, pref)
        mn == eff[idx]
        adv == Adv(st, eff, pref)
        lens2 == IF mn = 0 THEN st.lens ELSE [l \in Lanes |-> eff[l] - adv[l]]
        args2 == [l \in Lanes |-> [st.args[l] EXCEPT !.pos = @ + adv[l]]]
    IN [st |-> [stack |-> <<idx>> \o st.stack,
                jil |-> [st.jil EXCEPT ![idx] = NOJOB],
                lens |-> lens2,
                args |-> args2],
        ret |-> st.jil[idx],
        kernel |-> mn]

\* the set of <<buffer, position, key>> cells that kernel call writes (kept apart from Process: trace replay never needs it)
ProcessWrites(st, eff, pref) ==
    LET adv == Adv(st, eff, pref) IN
    IF eff[Sel(eff, pref)] = 0 THEN {}
    ELSE UNION { { <<st.args[l].buf, st.args[l].pos + k, st.args[l].key>> : k \in 0 .. adv[l] - 1 } : l \in Lanes }

\* SUBMIT_JOB_AES_ENC
SubmitState(st, j, len) ==
    LET lane == Head(st.stack) IN
    [stack |-> Tail(st.stack),
     jil |-> [st.jil EXCEPT ![lane] = j],
     lens |-> [st.lens EXCEPT ![lane] = len],
     args |-> [st.args EXCEPT ![lane] = [buf |-> j, pos |-> 0, key |-> j]]]
OSubmit(st, j, len) ==
    LET st1 == SubmitState(st, j, len)
    IN IF st1.stack # <<>>
       THEN [st |-> st1, ret |-> NOJOB, kernel |-> 0]      \* lanes not full: return NULL
       ELSE Process(st1, st1.lens, Head(st.stack))
OSubmitWrites(st, j, len) ==
    LET st1 == SubmitState(st, j, len) IN IF st1.stack # <<>> THEN {} ELSE ProcessWrites(st1, st1.lens, Head(st.stack))

\* FLUSH_JOB_AES_ENC
FlushArgs(st) == LET good == MaxLane(Busy(st)) IN                              \* the cmovne chain: highest busy lane
                 [st EXCEPT !.args = [l \in Lanes |-> IF st.jil[l] = NOJOB THEN st.args[good] ELSE st.args[l]]]
FlushEff(st) == [l \in Lanes |-> IF st.jil[l] = NOJOB THEN MAXLEN ELSE st.lens[l]]
OFlush(st) ==
    IF Busy(st) = {} THEN [st |-> st, ret |-> NOJOB, kernel |-> 0]
    ELSE Process(FlushArgs(st), FlushEff(st), L)
OFlushWrites(st) == IF Busy(st) = {} THEN {} ELSE ProcessWrites(FlushArgs(st), FlushEff(st), L)
=============================================================================
