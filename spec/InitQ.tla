------------------------------- MODULE InitQ -------------------------------
(***************************************************************************)
(* Model-checking wrapper of OooInitQ (SNOW3G-UIA2 manager): any sequence  *)
(* of submits and flushes.  Properties: the lane bookkeeping stays sane,   *)
(* every job is handed back at most once, the digest of a job is computed  *)
(* from the key stream started for that very job (a lane re-used while     *)
(* its init_done bit is still set would break that), and a flush on a      *)
(* non-empty manager always hands a job back.                              *)
(***************************************************************************)
EXTENDS Naturals, Sequences, FiniteSets
CONSTANTS L, MaxJobs
Q == INSTANCE OooInitQ
VARIABLES st, nextId, returned, ok
vars == <<st, nextId, returned, ok>>

Init == st = Q!EmptyLanes /\ nextId = 1 /\ returned = <<>> /\ ok = TRUE
Take(r) == /\ st' = r.st
           /\ returned' = IF r.ret = Q!NOJOB THEN returned ELSE Append(returned, r.ret)
           /\ ok' = (ok /\ r.fresh)
Submit == /\ nextId <= MaxJobs /\ st.stack # <<>>
          /\ Take(Q!OSubmit(st, nextId)) /\ nextId' = nextId + 1
Flush == /\ Take(Q!OFlush(st)) /\ UNCHANGED nextId
         /\ (Q!Busy(st) # {} => Q!OFlush(st).ret # Q!NOJOB)        \* FlushNonEmpty (as an enabling condition it would hide the
                                                                   \* failure; FlushProgress below states it)
Next == Submit \/ Flush
Spec == Init /\ [][Next]_vars

InFlight == { st.jil[l] : l \in Q!Lanes } \ {Q!NOJOB}
Ret == { returned[i] : i \in 1 .. Len(returned) }
QInv == /\ Q!TypeOK(st)
        /\ ok                                                      \* FreshKeyStream
        /\ Len(returned) = Cardinality(Ret)                        \* OnceOnly
        /\ InFlight \cap Ret = {}
        /\ InFlight \cup Ret = 1 .. (nextId - 1)                   \* NothingLost
        /\ Cardinality(InFlight) < L \/ st.stack = <<>>
        /\ st.stack # <<>> \/ TRUE
NeverFullAtRest == Cardinality(InFlight) < L                       \* a submit that fills the last lane hands a job back
FlushProgress == Q!Busy(st) # {} => Q!OFlush(st).ret # Q!NOJOB
=============================================================================
