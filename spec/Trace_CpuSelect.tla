--------------------------- MODULE Trace_CpuSelect ---------------------------
(* Validates recorded variant selections (harness/drv_cpusel.c, hook H2) against CpuSelect. *)
EXTENDS CpuSelect, Sequences, Json, IOUtils, TLC
Tr == ndJsonDeserialize(IOEnv.TRACE)
VARIABLE l

\* bitwise AND of two feature masks (28 bits)
RECURSIVE AndBits(_, _, _)
AndBits(a, b, k) == IF k > 27 THEN 0
                    ELSE (IF Bit(a, k) /\ Bit(b, k) THEN Pow2(k) ELSE 0) + AndBits(a, b, k + 1)
Host == Tr[1].feat

SelOK(t) ==
    LET feat == AndBits(Host, t.mask, 0)          \* what cpu_feature_detect() reports under the mask
        s == Select(t.init, feat, t.flags)
    IN
    /\ t.crashed = 0                               \* never executes what the CPU (as masked) lacks
    /\ t.errno = s.err /\ t.gerrno = s.err
    /\ IF s.err = 0
       THEN /\ t.used_arch = s.arch /\ t.arch_type = s.type
            /\ t.bound = 1
            /\ t.ncb > 0                           \* the power-up self-test ran
            /\ t.init = 3 => t.arch_out = s.arch
       ELSE /\ t.bound = 0                         \* manager left unbound
            /\ t.ncb = 0                           \* no job and no self-test ran
            /\ t.used_arch = 0
            /\ t.init = 3 => t.arch_out = 0

Init == l = 1
Next == /\ l <= Len(Tr) /\ l' = l + 1
        /\ \/ l = 1 /\ Tr[l].e = "Host"
           \/ Tr[l].e = "Sel" /\ SelOK(Tr[l])
           \/ Tr[l].e = "SelEnd" /\ Tr[l].n = Len(Tr) - 2
Spec == Init /\ [][Next]_l
TraceAccepted ==
    LET d == TLCGet("stats").diameter IN
    IF d - 1 = Len(Tr) THEN TRUE
    ELSE /\ PrintT(<<"TRACE_REJECTED_AT_LINE", d, "OF", Len(Tr)>>)
         /\ FALSE
=============================================================================
