-------------------------- MODULE Refine_ChainBurst --------------------------
(***************************************************************************)
(* Refinement level B => level A, job API and asynchronous burst API mixed *)
(* on one manager.  Same mapping as Refine_Chain.tla (queue -> ring        *)
(* indexes / slot table / pending, Completed -> slot status); the slots    *)
(* GET_NEXT_BURST hands out are the refinement's own variable off, which   *)
(* level A calls offered.  Every CSubmitBurstK / CFlushBurstN step of      *)
(* Chain.tla - k calls of submit_new_burst_job, the bounded return loop,   *)
(* the FLUSH_BURST fall-back when the ring wrapped - is a SubmitBurst /    *)
(* FlushBurst step of ImbMgr.tla for the completion set D the lane         *)
(* machines determine, including the record of what the call handed back   *)
(* and which of the two return paths it took.                              *)
(***************************************************************************)
EXTENDS MC_Chain, Integers
VARIABLES hist, off
rvars == <<cvars, hist, off>>

NI == N - 1
SlotIdx(j) == (j - 1) % NI
InQ == { queue[i] : i \in 1 .. Len(queue) }
JobAt(i) == CHOOSE j \in InQ : SlotIdx(j) = i
mEarliest == [m \in {0} |-> IF queue = <<>> THEN -1 ELSE SlotIdx(Head(queue))]
mNext == [m \in {0} |-> (nextId - 1) % NI]
mSlot == [m \in {0} |-> [i \in 0 .. NI - 1 |->
            IF \E j \in InQ : SlotIdx(j) = i
            THEN [id |-> JobAt(i) - 1, st |-> IF Completed(ms, JobAt(i)) THEN "done" ELSE "proc"]
            ELSE [id |-> -1, st |-> "free"]]]
mPending == [m \in {0} |-> [i \in 1 .. Len(queue) |-> queue[i] - 1]]

IM == INSTANCE ImbMgr WITH N <- NI, Mgr <- {0}, MaxBurst <- BurstMax, NONE <- "none",
          earliest <- mEarliest, next <- mNext, slot <- mSlot,
          offered <- [m \in {0} |-> off], errno <- [m \in {0} |-> 0], gerrno <- 0,
          pending <- mPending, nsub <- [m \in {0} |-> nextId - 1], nret <- [m \in {0} |-> Len(returned)],
          nextId <- [m \in {0} |-> nextId - 1], last <- hist

QS == Len(queue)                                       \* queue_sz() of the mapped ring (never full at rest)
Rec(op, qb, ids, sts, exp, slots) == [op |-> op, m |-> 0, qbefore |-> qb, ret |-> ids, slots |-> slots, rst |-> sts, exp |-> exp]
Dn(n) == [i \in 1 .. n |-> "done"]
Zero(s) == [i \in 1 .. Len(s) |-> s[i] - 1]

RInit == /\ CInit /\ off = <<>>
         /\ hist = [op |-> "Init", m |-> "none", qbefore |-> 0, ret |-> <<>>, slots |-> <<>>, rst |-> <<>>, exp |-> <<>>]
RSubmit == /\ CSubmit /\ off' = <<>>
           /\ LET q1 == Append(queue, nextId)
                  gave == Len(returned') = Len(returned) + 1
                  o == Head(q1) - 1
                  full == Len(q1) = NI
              IN hist' = Rec(IF full /\ queue # <<>> THEN "SubmitJobFull" ELSE "SubmitJob", QS,
                             IF gave THEN <<o>> ELSE <<>>, IF gave THEN <<"done">> ELSE <<>>, IF gave THEN <<o>> ELSE <<>>,
                             <<SlotIdx(nextId)>>)
RFlush == /\ CFlush /\ UNCHANGED off
          /\ LET o == Head(queue) - 1 IN hist' = Rec("FlushJob", QS, <<o>>, <<"done">>, <<o>>, <<>>)
RGet == /\ CGetCompleted /\ UNCHANGED off
        /\ LET o == Head(queue) - 1 IN hist' = Rec("GetCompletedJob", QS, <<o>>, <<"done">>, <<o>>, <<>>)
\* IMB_GET_NEXT_BURST(n): min(n, free slots) consecutive slots from next
RGetNextBurst(n) ==
    LET g == IF n < NI - QS THEN n ELSE NI - QS
        ss == [k \in 1 .. g |-> (mNext[0] + k - 1) % NI]
    IN /\ ok /\ off' = ss /\ UNCHANGED cvars
       /\ hist' = Rec("GetNextBurst", QS, <<>>, <<>>, <<>>, ss)
\* IMB_SUBMIT_BURST of the first k offered slots
RSubmitBurst(k) ==
    /\ k <= Len(off)
    /\ ok /\ nextId + k - 1 <= MaxJobs /\ Len(queue) + k <= N - 1
    /\ \E sus \in [1 .. k -> Suites], lps \in [1 .. k -> LenPairs] :       \* = CSubmitBurstK(k), with its outcome in hand
         LET o == BurstOutcome(k, sus, lps)
             back == SubSeq(o.pend, 1, o.r)
         IN /\ info' = o.inf /\ ms' = o.ms /\ ok' = o.ok
            /\ queue' = SubSeq(o.pend, o.r + 1, Len(o.pend))
            /\ returned' = returned \o back
            /\ hist' = Rec("SubmitBurst", QS,               \* level A does not tell the two return paths apart, see below
                           Zero(back), Dn(o.r), Zero(back), SubSeq(off, 1, k))
    /\ nextId' = nextId + k /\ UNCHANGED sync
    /\ off' = SubSeq(off, k + 1, Len(off))
(* Level A describes a call by the union D of everything that finishes inside it, so the fall-back path  *)
(* (nothing complete after the submissions, ring wrapped, FLUSH_BURST(k)) is to level A a SubmitBurst    *)
(* whose D contains the k oldest jobs: its own "SubmitBurstFlush" branch asks for no leading finished    *)
(* job after D and then for k of them, which only k = 0 satisfies.  The first run of this refinement     *)
(* (op name taken from o.fallback) was refuted in 5 states for exactly that reason; o.fallback stays in  *)
(* BurstOutcome because FallbackExact below and the trace specification use it.                          *)
RFlushBurst(mx) ==
    /\ CFlushBurstN(mx) /\ UNCHANGED off
    /\ LET r == Len(returned') - Len(returned)
       IN hist' = Rec("FlushBurst", QS, Zero(SubSeq(queue, 1, r)), Dn(r), Zero(SubSeq(queue, 1, r)), <<>>)
RNext == \/ RSubmit \/ RFlush \/ RGet
         \/ \E n \in 0 .. BurstMax : RGetNextBurst(n)
         \/ \E k \in 1 .. BurstMax : RSubmitBurst(k)
         \/ \E mx \in 0 .. NI : RFlushBurst(mx)
RSpec == RInit /\ [][RNext]_rvars

Ids == 0 .. MaxJobs - 1
ANext == \E D \in SUBSET Ids : \/ IM!SubmitJob(0, TRUE, TRUE, 2001, D)
                              \/ IM!FlushJob(0, D)
                              \/ IM!GetCompletedJob(0)
                              \/ \E n \in 0 .. BurstMax : IM!GetNextBurst(0, n)
                              \/ \E k \in 1 .. BurstMax : IM!SubmitBurst(0, k, TRUE, 0, 2001, D)
                              \/ \E mx \in 0 .. NI : IM!FlushBurst(0, mx, D)
ImplementsLevelA == IM!Init /\ [][ANext]_(IM!vars)
LevelAInv == IM!TypeOK
\* the fall-back path hands back exactly as many jobs as the burst had, all complete
FallbackExact == hist.op = "SubmitBurst" /\ Len(hist.slots) > 0 /\ hist.qbefore + Len(hist.slots) = NI /\ hist.ret # <<>>
                    => Len(hist.ret) <= Len(hist.slots)
=============================================================================
