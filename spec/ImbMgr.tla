------------------------------- MODULE ImbMgr -------------------------------
(***************************************************************************)
(* Level-A specification of the intel-ipsec-mb job manager: the in-order   *)
(* ring (earliest_job / next_job / jobs[]), the single-job API, the        *)
(* asynchronous burst API, per-manager and process-wide error codes,       *)
(* (re-)initialisation and crash / re-attach, for a set Mgr of managers.   *)
(*                                                                         *)
(* The actions are written the way the C code is written (three-way case   *)
(* split empty / not full / full of submit_job_and_check(), the two-pass   *)
(* return loop of submit_burst_and_check(), the FLUSH_BURST fall-back),    *)
(* one action per entry point; what the out-of-order managers do inside a  *)
(* call is abstracted to the set D of jobs whose processing finishes       *)
(* during that call (level B, Ooo.tla, refines this choice).               *)
(*                                                                         *)
(* Anchors: lib/include/mb_mgr_job_api.h (submit_job_and_check, FLUSH_JOB, *)
(* GET_COMPLETED_JOB, GET_NEXT_JOB, QUEUE_SIZE), mb_mgr_burst_async.h,     *)
(* mb_mgr_code.h (queue_sz, ADV_JOBS), error.h (imb_set_errno).            *)
(***************************************************************************)
EXTENDS Naturals, Integers, Sequences, FiniteSets, SequencesExt

CONSTANTS
    Mgr,        \* set of manager identities
    N,          \* ring size (IMB_MAX_JOBS = 256)
    MaxBurst,   \* IMB_MAX_BURST_SIZE = 128
    NONE        \* "no job" (NULL)

ASSUME N \in Nat /\ N >= 2 /\ MaxBurst \in Nat /\ MaxBurst <= N

\* error codes used at this level (values of IMB_ERR_*)
ErrNullBurst  == 2048
ErrBurstSize  == 2049
ErrBurstOOO   == 2050
ErrQueueSpace == 2047
ErrNullJob    == 2046
ErrSuiteId    == 2052

VARIABLES
    earliest,   \* [Mgr -> -1 .. N-1]   slot index of the oldest job in flight, -1 = queue empty
    next,       \* [Mgr -> 0 .. N-1]    slot index handed out by the next get-next call
    slot,       \* [Mgr -> [0..N-1 -> [id : Int, st : {"free","proc","done","inv"}]]]
    offered,    \* [Mgr -> Seq(0..N-1)] slots the user was offered by GetNextBurst and still holds
    errno,      \* [Mgr -> Int]         per-manager error field
    gerrno,     \* Int                  process-wide mirror written by every imb_set_errno()
    \* ---- ghost / history (contract level) ----
    pending,    \* [Mgr -> Seq(Int)]    ids of accepted submissions not yet handed back, in submission order
    nsub,       \* [Mgr -> Nat]         accepted submissions since the last (re-)initialisation
    nret,       \* [Mgr -> Nat]         jobs handed back since then
    nextId,     \* [Mgr -> Nat]
    last        \* record describing the last call (for the action-level properties)

vars == <<earliest, next, slot, offered, errno, gerrno, pending, nsub, nret, nextId, last>>
ringvars == <<earliest, next, slot>>
ghost == <<pending, nsub, nret, nextId>>

Slots == 0 .. N-1
Free == [id |-> -1, st |-> "free"]

Adv(i, k) == (i + k) % N

\* queue_sz() exactly as coded, including the "zero means full" convention
QSize(m) ==
    IF earliest[m] < 0 THEN 0
    ELSE LET a == (next[m] - earliest[m] + N) % N IN IF a = 0 THEN N ELSE a

Finished(s) == s.st \in {"done", "inv"}

\* ids currently in flight and still being processed
ProcIds(m) == { slot[m][i].id : i \in { j \in Slots : slot[m][j].st = "proc" } }

SlotOf(m, id) == CHOOSE i \in Slots : slot[m][i].id = id

\* apply completions D (a set of ids) to the slot table
Complete(sl, D) == [i \in Slots |-> IF sl[i].st = "proc" /\ sl[i].id \in D
                                     THEN [sl[i] EXCEPT !.st = "done"] ELSE sl[i]]

SetErr(m, e) == /\ errno' = [errno EXCEPT ![m] = e]
                /\ gerrno' = e

StName(s) == s.st

TypeOK ==
    /\ earliest \in [Mgr -> -1 .. N-1]
    /\ next \in [Mgr -> Slots]
    /\ \A m \in Mgr : \A i \in Slots : slot[m][i].st \in {"free", "proc", "done", "inv"}

Init ==
    /\ earliest = [m \in Mgr |-> -1]
    /\ next \in [Mgr -> Slots]
    /\ slot = [m \in Mgr |-> [i \in Slots |-> Free]]
    /\ offered = [m \in Mgr |-> <<>>]
    /\ errno = [m \in Mgr |-> 0]
    /\ gerrno = 0
    /\ pending = [m \in Mgr |-> <<>>]
    /\ nsub = [m \in Mgr |-> 0]
    /\ nret = [m \in Mgr |-> 0]
    /\ nextId = [m \in Mgr |-> 0]
    /\ last = [op |-> "Init", m |-> NONE, qbefore |-> 0, ret |-> <<>>, slots |-> <<>>, rst |-> <<>>, exp |-> <<>>]

-----------------------------------------------------------------------------
(* helpers that hand jobs back to the caller *)

\* pend = the pending sequence including what this call submitted; r jobs leave from its front
Leave(m, pend, r) ==
    /\ pending' = [pending EXCEPT ![m] = SubSeq(pend, r + 1, Len(pend))]
    /\ nret' = [nret EXCEPT ![m] = @ + r]
Expected(pend, r) == SubSeq(pend, 1, IF r <= Len(pend) THEN r ELSE Len(pend))

\* the record describing a call: what it handed back (ids, statuses) and what the submission order
\* says it should have handed back
Call(op, m, qb, ids, sts, exp, slots) ==
    last' = [op |-> op, m |-> m, qbefore |-> qb, ret |-> ids, slots |-> slots, rst |-> sts, exp |-> exp]

-----------------------------------------------------------------------------
(* IMB_GET_NEXT_JOB *)
GetNextJob(m) ==
    /\ SetErr(m, 0)
    /\ Call("GetNextJob", m, QSize(m), <<>>, <<>>, <<>>, <<next[m]>>)
    /\ UNCHANGED <<ringvars, offered, ghost>>

(* IMB_SUBMIT_JOB / IMB_SUBMIT_JOB_NOCHECK.                                 *)
(*   valid : the job satisfies every documented constraint                  *)
(*   chk   : the checked entry point is used                                *)
(*   e     : error code validation reports for an invalid job               *)
(*   D     : ids whose processing finishes inside this call                 *)
(* The user contract: the slot being submitted is the one GetNextJob gives  *)
(* (next[m]); an invalid job is only ever submitted through the checked     *)
(* entry point.                                                             *)
SubmitJob(m, valid, chk, e, D) ==
    LET id == nextId[m]
        s0 == next[m]
        rejected == chk /\ ~valid
        sl1 == [slot[m] EXCEPT ![s0] = [id |-> id, st |-> IF rejected THEN "inv" ELSE "proc"]]
        sl2 == Complete(sl1, D)
        nx  == Adv(s0, 1)
        pend == Append(pending[m], id)
    IN
    /\ valid \/ chk
    /\ slot[m][s0].st = "free"                     \* never overwrite a job awaiting return
    /\ D \subseteq { sl1[i].id : i \in { j \in Slots : sl1[j].st = "proc" } }
    /\ nextId' = [nextId EXCEPT ![m] = id + 1]
    /\ nsub' = [nsub EXCEPT ![m] = @ + 1]
    /\ SetErr(m, IF rejected THEN e ELSE 0)
    /\ rejected => e # 0
    /\ next' = [next EXCEPT ![m] = nx]
    /\ offered' = [offered EXCEPT ![m] = <<>>]
    /\ IF earliest[m] < 0
       THEN \* state was previously empty
            IF Finished(sl2[s0])
            THEN \* completed (or rejected) straight away: handed back, ring stays empty
                 /\ earliest' = earliest
                 /\ slot' = [slot EXCEPT ![m] = [sl2 EXCEPT ![s0] = Free]]
                 /\ Leave(m, pend, 1)
                 /\ Call("SubmitJob", m, 0, <<id>>, <<sl2[s0].st>>, Expected(pend, 1), <<s0>>)
            ELSE /\ earliest' = [earliest EXCEPT ![m] = s0]
                 /\ slot' = [slot EXCEPT ![m] = sl2]
                 /\ Leave(m, pend, 0)
                 /\ Call("SubmitJob", m, 0, <<>>, <<>>, <<>>, <<s0>>)
       ELSE IF earliest[m] = nx
       THEN \* full: complete_job(earliest) forces the oldest job to finish
            LET o == earliest[m] IN
            /\ Finished(sl2[o])                    \* D must contain it unless already finished
            /\ earliest' = [earliest EXCEPT ![m] = Adv(o, 1)]
            /\ slot' = [slot EXCEPT ![m] = [sl2 EXCEPT ![o] = Free]]
            /\ Leave(m, pend, 1)
            /\ Call("SubmitJobFull", m, QSize(m), <<sl2[o].id>>, <<sl2[o].st>>, Expected(pend, 1), <<s0>>)
       ELSE LET o == earliest[m] IN
            IF Finished(sl2[o])
            THEN /\ earliest' = [earliest EXCEPT ![m] = Adv(o, 1)]
                 /\ slot' = [slot EXCEPT ![m] = [sl2 EXCEPT ![o] = Free]]
                 /\ Leave(m, pend, 1)
                 /\ Call("SubmitJob", m, QSize(m), <<sl2[o].id>>, <<sl2[o].st>>, Expected(pend, 1), <<s0>>)
            ELSE /\ earliest' = earliest
                 /\ slot' = [slot EXCEPT ![m] = sl2]
                 /\ Leave(m, pend, 0)
                 /\ Call("SubmitJob", m, QSize(m), <<>>, <<>>, <<>>, <<s0>>)

(* IMB_FLUSH_JOB *)
FlushJob(m, D) ==
    /\ SetErr(m, 0)
    /\ UNCHANGED <<next, offered, nsub, nextId>>
    /\ IF earliest[m] < 0
       THEN /\ D = {}
            /\ UNCHANGED <<earliest, slot, pending, nret>>
            /\ Call("FlushJob", m, 0, <<>>, <<>>, <<>>, <<>>)
       ELSE LET o == earliest[m]
                sl2 == Complete(slot[m], D)
                e2 == Adv(o, 1)
            IN
            /\ D \subseteq ProcIds(m)
            /\ Finished(sl2[o])
            /\ earliest' = [earliest EXCEPT ![m] = IF e2 = next[m] THEN -1 ELSE e2]
            /\ slot' = [slot EXCEPT ![m] = [sl2 EXCEPT ![o] = Free]]
            /\ Leave(m, pending[m], 1)
            /\ Call("FlushJob", m, QSize(m), <<sl2[o].id>>, <<sl2[o].st>>, Expected(pending[m], 1), <<>>)

(* IMB_GET_COMPLETED_JOB : never processes anything *)
GetCompletedJob(m) ==
    /\ SetErr(m, 0)
    /\ UNCHANGED <<next, offered, nsub, nextId>>
    /\ IF earliest[m] >= 0 /\ Finished(slot[m][earliest[m]])
       THEN LET o == earliest[m]
                e2 == Adv(o, 1)
            IN
            /\ earliest' = [earliest EXCEPT ![m] = IF e2 = next[m] THEN -1 ELSE e2]
            /\ slot' = [slot EXCEPT ![m][o] = Free]
            /\ Leave(m, pending[m], 1)
            /\ Call("GetCompletedJob", m, QSize(m), <<slot[m][o].id>>, <<slot[m][o].st>>,
                    Expected(pending[m], 1), <<>>)
       ELSE /\ UNCHANGED <<earliest, slot, pending, nret>>
            /\ Call("GetCompletedJob", m, QSize(m), <<>>, <<>>, <<>>, <<>>)

(* IMB_QUEUE_SIZE *)
QueueSize(m) ==
    /\ SetErr(m, 0)
    /\ Call("QueueSize", m, QSize(m), <<QSize(m)>>, <<>>, <<QSize(m)>>, <<>>)
    /\ UNCHANGED <<ringvars, offered, ghost>>

(* a manager-level call that fails on its arguments (NULL burst array passed to IMB_GET_NEXT_BURST,      *)
(* IMB_FLUSH_BURST, IMB_SUBMIT_BURST, IMB_SUBMIT_CIPHER_BURST ...): hands nothing out or back, leaves its  *)
(* error code behind and changes nothing else - in particular not the slot IMB_GET_NEXT_JOB offered     *)
BadCall(m, code) ==
    /\ SetErr(m, code)
    /\ Call("BadCall", m, QSize(m), <<>>, <<>>, <<>>, <<>>)
    /\ UNCHANGED <<ringvars, offered, ghost>>

-----------------------------------------------------------------------------
(* asynchronous burst API *)

\* the slots GET_NEXT_BURST hands out: min(n, N - qsz) consecutive slots from next, wrapping
BurstSlots(m, n) ==
    LET g == IF n < N - QSize(m) THEN n ELSE N - QSize(m)
    IN [k \in 1 .. g |-> Adv(next[m], k - 1)]

GetNextBurst(m, n) ==
    IF n > MaxBurst
    THEN /\ SetErr(m, ErrBurstSize)
         /\ Call("GetNextBurst", m, QSize(m), <<>>, <<>>, <<>>, <<>>)
         /\ UNCHANGED <<ringvars, offered, ghost>>
    ELSE /\ SetErr(m, 0)
         /\ offered' = [offered EXCEPT ![m] = BurstSlots(m, n)]
         /\ Call("GetNextBurst", m, QSize(m), <<>>, <<>>, <<>>, BurstSlots(m, n))
         /\ UNCHANGED <<ringvars, ghost>>

\* number of leading finished jobs among the first cnt slots from position e
FinishedRun(sl, e, cnt) ==
    LET unfinished == { k \in 1 .. cnt : ~Finished(sl[Adv(e, k - 1)]) }
    IN IF unfinished = {} THEN cnt
       ELSE (CHOOSE k \in unfinished : \A j \in unfinished : k <= j) - 1

\* hand back r jobs starting at slot e (in ring order)
RetIds(sl, e, r) == [k \in 1 .. r |-> sl[Adv(e, k - 1)].id]
RetSts(sl, e, r) == [k \in 1 .. r |-> sl[Adv(e, k - 1)].st]
FreeRun(sl, e, r) == [i \in Slots |-> IF (i - e + N) % N < r THEN Free ELSE sl[i]]

(* IMB_FLUSH_BURST(max) with completions D.  `sl' is the slot table to start from, pend the  *)
(* pending sequence including whatever the calling action submitted.                         *)
FlushBurstBody(m, sl, e0, nx, maxj, D, opname, qb, pend, slots) ==
    LET q == IF e0 < 0 THEN 0 ELSE (LET a == (nx - e0 + N) % N IN IF a = 0 THEN N ELSE a)
        r == IF q < maxj THEN q ELSE maxj
        sl2 == Complete(sl, D)
    IN
    IF q = 0
    THEN /\ D = {}
         /\ earliest' = [earliest EXCEPT ![m] = e0]
         /\ slot' = [slot EXCEPT ![m] = sl]
         /\ Leave(m, pend, 0)
         /\ Call(opname, m, qb, <<>>, <<>>, <<>>, slots)
    ELSE /\ \A k \in 1 .. r : Finished(sl2[Adv(e0, k - 1)])   \* each is completed before hand-back
         /\ earliest' = [earliest EXCEPT ![m] = IF Adv(e0, r) = nx THEN -1 ELSE Adv(e0, r)]
         /\ slot' = [slot EXCEPT ![m] = FreeRun(sl2, e0, r)]
         /\ Leave(m, pend, r)
         /\ Call(opname, m, qb, RetIds(sl2, e0, r), RetSts(sl2, e0, r), Expected(pend, r), slots)

FlushBurst(m, maxj, D) ==
    /\ SetErr(m, 0)
    /\ D \subseteq ProcIds(m)
    /\ UNCHANGED <<next, offered, nsub, nextId>>
    /\ FlushBurstBody(m, slot[m], earliest[m], next[m], maxj, D, "FlushBurst", QSize(m), pending[m], <<>>)

(* IMB_SUBMIT_BURST / _NOCHECK of the first k offered slots.                *)
(*   bad  : 0 = all jobs valid, i > 0 = job number i is invalid (checked    *)
(*          entry point only), e its error code                             *)
Refused(m, e, ss) ==
    /\ SetErr(m, e)
    /\ Call("SubmitBurstRejected", m, QSize(m), <<>>, <<>>, <<>>, ss)
    /\ UNCHANGED <<ringvars, offered, ghost>>

SubmitBurst(m, k, chk, bad, e, D) ==
    LET ss == SubSeq(offered[m], 1, k)
        ids == [i \in 1 .. k |-> nextId[m] + i - 1]
        inorder == \A i \in 1 .. k : ss[i] = Adv(next[m], i - 1)
    IN
    /\ k <= Len(offered[m])
    /\ bad \in 0 .. k
    /\ bad > 0 => chk
    /\ IF chk /\ k > MaxBurst THEN D = {} /\ Refused(m, ErrBurstSize, ss)
       ELSE IF chk /\ N - QSize(m) < k THEN D = {} /\ Refused(m, ErrQueueSpace, ss)
       ELSE IF chk /\ ~inorder THEN D = {} /\ Refused(m, ErrBurstOOO, ss)
       ELSE IF chk /\ bad > 0
       THEN \* whole burst refused, nothing submitted, queue unchanged
            e # 0 /\ D = {} /\ Refused(m, e, ss)
       ELSE \* accepted
            LET e0 == IF earliest[m] < 0 THEN next[m] ELSE earliest[m]
                \* the k submitted slots are next .. next+k-1 (`inorder' is required below)
                sl1 == [i \in Slots |->
                          IF (i - next[m] + N) % N < k
                          THEN [id |-> ids[((i - next[m] + N) % N) + 1], st |-> "proc"]
                          ELSE slot[m][i]]
                sl2 == Complete(sl1, D)
                nx == Adv(next[m], k)
                r == FinishedRun(sl2, e0, k)
                e1 == Adv(e0, r)
                pend == pending[m] \o ids
            IN
            /\ inorder                              \* user contract for the no-check call
            /\ \A j \in 1 .. k : slot[m][ss[j]].st = "free"
            /\ k <= N - QSize(m)
            /\ D \subseteq { sl1[i].id : i \in { j \in Slots : sl1[j].st = "proc" } }
            /\ SetErr(m, 0)
            /\ nextId' = [nextId EXCEPT ![m] = @ + k]
            /\ nsub' = [nsub EXCEPT ![m] = @ + k]
            /\ next' = [next EXCEPT ![m] = nx]
            /\ offered' = [offered EXCEPT ![m] = SubSeq(@, k + 1, Len(@))]
            /\ IF e1 = nx /\ r = 0
               THEN \* wrapped (full) or nothing submitted: falls back to FLUSH_BURST(k)
                    FlushBurstBody(m, sl2, e0, nx, k, {}, "SubmitBurstFlush", QSize(m), pend, ss)
               ELSE /\ earliest' = [earliest EXCEPT ![m] = IF e1 = nx THEN -1 ELSE e1]
                    /\ slot' = [slot EXCEPT ![m] = FreeRun(sl2, e0, r)]
                    /\ Leave(m, pend, r)
                    /\ Call("SubmitBurst", m, QSize(m), RetIds(sl2, e0, r), RetSts(sl2, e0, r),
                            Expected(pend, r), ss)

-----------------------------------------------------------------------------
(* init_mb_mgr_*(): any state -> pristine empty manager; jobs in flight are dropped *)
InitMgr(m, nx, e) ==
    /\ earliest' = [earliest EXCEPT ![m] = -1]
    /\ next' = [next EXCEPT ![m] = nx]
    /\ slot' = [slot EXCEPT ![m] = [i \in Slots |-> Free]]
    /\ offered' = [offered EXCEPT ![m] = <<>>]
    /\ SetErr(m, e)
    /\ pending' = [pending EXCEPT ![m] = <<>>]
    /\ nsub' = [nsub EXCEPT ![m] = 0]
    /\ nret' = [nret EXCEPT ![m] = 0]
    /\ nextId' = [nextId EXCEPT ![m] = 0]
    /\ Call("InitMgr", m, QSize(m), <<>>, <<>>, <<>>, <<>>)

(* crash + imb_set_pointers_mb_mgr(reset = 0): the persistent manager block is untouched *)
Reattach(m) ==
    /\ SetErr(m, 0)
    /\ Call("Reattach", m, QSize(m), <<>>, <<>>, <<>>, <<>>)
    /\ UNCHANGED <<ringvars, offered, ghost>>

-----------------------------------------------------------------------------
Next ==
    \E m \in Mgr :
        \/ GetNextJob(m)
        \/ \E valid \in BOOLEAN, chk \in BOOLEAN, D \in SUBSET (ProcIds(m) \cup {nextId[m]}) :
              SubmitJob(m, valid, chk, 2001, D)
        \/ \E D \in SUBSET ProcIds(m) : FlushJob(m, D)
        \/ GetCompletedJob(m)
        \/ QueueSize(m)
        \/ BadCall(m, 2048)
        \/ \E n \in 0 .. MaxBurst + 1 : GetNextBurst(m, n)
        \/ \E k \in 0 .. Len(offered[m]), chk \in BOOLEAN, bad \in 0 .. Len(offered[m]),
              D \in SUBSET (ProcIds(m) \cup { nextId[m] + i : i \in 0 .. Len(offered[m]) }) :
              SubmitBurst(m, k, chk, bad, 2001, D)
        \/ \E mx \in 0 .. N, D \in SUBSET ProcIds(m) : FlushBurst(m, mx, D)
        \/ \E nx \in Slots : InitMgr(m, nx, 0)
        \/ Reattach(m)

Spec == Init /\ [][Next]_vars

-----------------------------------------------------------------------------
(* C05 — contract invariants                                                *)

\* every accepted job is handed back exactly once, in submission order: what a call hands back is
\* always the front of the pending sequence (the ids leave `pending' exactly when handed back)
InOrderOnce == last.ret = last.exp \/ last.op = "QueueSize"

\* reported queue size = submitted - handed back = jobs pending
Accounting == \A m \in Mgr : QSize(m) = nsub[m] - nret[m] /\ QSize(m) = Len(pending[m])

\* only fully processed jobs are handed back
OnlyFinished == \A i \in 1 .. Len(last.rst) : last.rst[i] \in {"done", "inv"}

\* the occupied slots are exactly the cyclic interval [earliest, next)
RingShape ==
    \A m \in Mgr : \A i \in Slots :
        (slot[m][i].st # "free") <=> (earliest[m] >= 0 /\ (i - earliest[m] + N) % N < QSize(m))

\* jobs sit in the ring in submission order
RingOrder ==
    \A m \in Mgr : \A k \in 1 .. QSize(m) :
        slot[m][Adv(earliest[m], k - 1)].id = pending[m][k]

\* the queue is never left full between calls (a full ring forces the oldest job out)
NeverPersistFull == \A m \in Mgr : QSize(m) < N

\* a slot offered for filling never holds a job awaiting return
OfferedSlotFree ==
    last.op \in {"GetNextJob", "GetNextBurst"} =>
        \A k \in 1 .. Len(last.slots) : slot[last.m][last.slots[k]].st = "free"

\* flush returns a job iff the queue was non-empty
FlushNonEmpty ==
    last.op = "FlushJob" => ((last.ret = <<>>) <=> (last.qbefore = 0))

\* when the queue is full a submit hands back the oldest job
FullForcesOldest ==
    last.op = "SubmitJobFull" => Len(last.ret) = 1

\* C14: error code is zero unless the call failed
ErrnoMirrors == \A m \in Mgr : last.m = m => gerrno = errno[m]

\* C17: an action on one manager changes nothing of any other manager (only the process-wide mirror)
NonInterference ==
    [][\A m \in Mgr : (last'.m # m) =>
            /\ earliest'[m] = earliest[m] /\ next'[m] = next[m] /\ slot'[m] = slot[m]
            /\ errno'[m] = errno[m] /\ offered'[m] = offered[m]
            /\ pending'[m] = pending[m] /\ nsub'[m] = nsub[m] /\ nret'[m] = nret[m]]_vars

Inv == /\ TypeOK /\ InOrderOnce /\ Accounting /\ OnlyFinished /\ RingShape /\ RingOrder
       /\ NeverPersistFull /\ OfferedSlotFree /\ FlushNonEmpty /\ FullForcesOldest
       /\ ErrnoMirrors

InvFast == Inv

\* bound for exhaustive checking
SubBound(b) == \A m \in Mgr : nextId[m] <= b
=============================================================================
