-------------------------------- MODULE OooHmac --------------------------------
(***************************************************************************)
(* Level B: the out-of-order lane machine of one multi-phase ("HMAC")      *)
(* multi-buffer manager, written to mirror the assembly                    *)
(*   lib/sse_t1/mb_mgr_hmac_sha1_submit_sse.asm  (submit_job_hmac_sse)     *)
(*   lib/sse_t1/mb_mgr_hmac_sha1_flush_sse.asm   (flush_job_hmac_sse)      *)
(* and the SHA-224/256/384/512/MD5 and AVX/AVX2/AVX512 siblings.  A job    *)
(* passes through up to three phases inside its lane:                      *)
(*   data   - the whole message blocks, read from the job's source         *)
(*   extra  - 1 or 2 blocks holding the message tail, 0x80 and the length, *)
(*            read from the lane's own extra_block (copied at submit)      *)
(*   outer  - one block (inner digest, padding) read from the lane's       *)
(*            outer_block, hashed from the opad state                      *)
(* lens[] counts blocks of the current phase; the selection loop           *)
(* (start_loop) runs until the lane picked by phminposuw has no phase      *)
(* left, which is the job handed back.  Flush gives idle lanes length      *)
(* 0xFFFF and the data pointer of a live lane, repeating the copy every    *)
(* time round the loop (copy_lane_data).                                   *)
(*                                                                         *)
(* With Track = TRUE the model also records, per lane, the sequence of     *)
(* blocks its digest column has absorbed, so that TLC can check that the   *)
(* tag handed back for a job is a function of that job's blocks only, in   *)
(* order, each exactly once (C04 for the hash managers).                   *)
(***************************************************************************)
EXTENDS Naturals, Sequences, FiniteSets

CONSTANTS L,        \* number of lanes
          MAXLEN,   \* idle length 0xFFFF
          BLK,      \* block size in bytes: 64 (MD5, SHA-1, SHA-224/256) or 128 (SHA-384/512)
          PADMIN,   \* 0x80 byte + length field: 9 or 17
          Track     \* record absorbed blocks (model checking) or not (trace replay)

Lanes == 0 .. L - 1
NOJOB == 0

NBlocks(len) == len \div BLK
NExtra(len) == ((len % BLK) + PADMIN + BLK - 1) \div BLK

\* where a lane reads from: the message of a job, the lane's extra block or the lane's outer block;
\* `own` is the job the bytes belong to
Src(kind, own, pos) == [kind |-> kind, own |-> own, pos |-> pos]
NoSrc == Src("none", NOJOB, 0)

EmptyLanes ==
    [stack |-> [i \in 1 .. L |-> i - 1],
     jil   |-> [l \in Lanes |-> NOJOB],
     lens  |-> [l \in Lanes |-> 0],
     extra |-> [l \in Lanes |-> 0],          \* _extra_blocks: blocks of the extra phase still to be scheduled
     outer |-> [l \in Lanes |-> FALSE],      \* _outer_done
     src   |-> [l \in Lanes |-> NoSrc],      \* args_data_ptr
     abs   |-> [l \in Lanes |-> <<>>],       \* blocks absorbed into the digest column since it was last loaded
     inner |-> [l \in Lanes |-> <<>>]]       \* what the inner digest placed in outer_block had absorbed

Busy(st) == { l \in Lanes : st.jil[l] # NOJOB }
MinOf(f) == CHOOSE v \in { f[l] : l \in Lanes } : \A l \in Lanes : v <= f[l]
ArgMin(f) == LET m == MinOf(f) IN CHOOSE l \in Lanes : f[l] = m /\ \A k \in Lanes : f[k] = m => l <= k
MaxLane(S) == CHOOSE l \in S : \A k \in S : k <= l

\* the kernel (sha1_mult_sse etc.): every lane, idle or not, absorbs mn blocks from its pointer
Kernel(st, mn) ==
    [st EXCEPT !.src = [l \in Lanes |-> [st.src[l] EXCEPT !.pos = @ + mn]],
               !.abs = IF Track
                       THEN [l \in Lanes |-> st.abs[l] \o [k \in 1 .. mn |-> <<st.src[l].kind, st.src[l].own, st.src[l].pos + k - 1>>]]
                       ELSE st.abs]

\* copy_lane_data: idle lanes take the data pointer of lane `from` and length MAXLEN (flush only)
CopyIdle(st, from) ==
    [st EXCEPT !.src = [l \in Lanes |-> IF st.jil[l] = NOJOB THEN st.src[from] ELSE st.src[l]],
               !.lens = [l \in Lanes |-> IF st.jil[l] = NOJOB THEN MAXLEN ELSE st.lens[l]]]

\* start_loop .. end_loop.  flush = TRUE re-runs copy_lane_data before every selection.
\* Result: the state after the call, the job handed back and the digest history its tag was made from.
RECURSIVE Loop(_, _, _)
Loop(st0, flush, from) ==
    LET st1 == IF flush THEN CopyIdle(st0, from) ELSE st0
        idx == ArgMin(st1.lens)
        mn  == st1.lens[idx]
        st2 == IF mn = 0 THEN st1
               ELSE Kernel([st1 EXCEPT !.lens = [l \in Lanes |-> st1.lens[l] - mn]], mn)
        j   == st2.jil[idx]
    IN IF st2.extra[idx] # 0
       THEN \* proc_extra_blocks
            Loop([st2 EXCEPT !.lens[idx] = st2.extra[idx], !.extra[idx] = 0,
                             !.src[idx] = Src("extra", j, 0)], flush, idx)
       ELSE IF ~ st2.outer[idx]
       THEN \* proc_outer: the inner digest goes to outer_block, the column is reloaded from opad
            Loop([st2 EXCEPT !.outer[idx] = TRUE, !.lens[idx] = 1,
                             !.src[idx] = Src("outer", j, 0),
                             !.inner[idx] = st2.abs[idx], !.abs[idx] = <<>>], flush, idx)
       ELSE \* end_loop
            [st |-> [st2 EXCEPT !.jil[idx] = NOJOB, !.stack = <<idx>> \o st2.stack],
             ret |-> j,
             tag |-> [inner |-> st2.inner[idx], outer |-> st2.abs[idx]]]

NoRet(st) == [st |-> st, ret |-> NOJOB, tag |-> [inner |-> <<>>, outer |-> <<>>]]

\* submit_job_hmac_*
OSubmit(st, j, len) ==
    LET lane == Head(st.stack)
        nb == NBlocks(len)
        ne == NExtra(len)
        st1 == [st EXCEPT !.stack = Tail(st.stack),
                          !.jil[lane] = j,
                          !.outer[lane] = FALSE,
                          !.abs[lane] = <<>>, !.inner[lane] = <<>>,           \* digest column loaded from ipad
                          !.lens[lane] = IF nb = 0 THEN ne ELSE nb,           \* lt64_bytes: straight to the extra phase
                          !.extra[lane] = IF nb = 0 THEN 0 ELSE ne,
                          !.src[lane] = IF nb = 0 THEN Src("extra", j, 0) ELSE Src("msg", j, 0)]
    IN IF st1.stack # <<>> THEN NoRet(st1) ELSE Loop(st1, FALSE, lane)

\* flush_job_hmac_*
OFlush(st) == IF Busy(st) = {} THEN NoRet(st) ELSE Loop(st, TRUE, MaxLane(Busy(st)))

\* what the tag of job j with message length len must have been made from
ExpectedTag(j, len) ==
    [inner |-> [k \in 1 .. NBlocks(len) |-> <<"msg", j, k - 1>>] \o [k \in 1 .. NExtra(len) |-> <<"extra", j, k - 1>>],
     outer |-> << <<"outer", j, 0>> >>]
=============================================================================
