------------------------------- MODULE OooPhased -------------------------------
(***************************************************************************)
(* Level B: generic multi-phase lane machine.  A job is a non-empty        *)
(* sequence of phase lengths; lens[] holds what is left of the current     *)
(* phase; the selection loop (min length, lowest index first) runs until   *)
(* the selected lane has no phase left - that job is handed back.  This is *)
(* the common skeleton of the CBC-MAC style managers                       *)
(*   lib/include/mb_mgr_aes_cmac_submit_flush_*.inc   (message blocks,     *)
(*        then M_last from the lane's scratch block: init_done)            *)
(*   lib/sse_t1/mb_mgr_aes128_xcbc_{submit,flush}_x4_sse.asm (final_done)  *)
(* and of the HMAC managers (OooHmac.tla spells their three phases out and *)
(* tracks the data sources; here only the scheduling is kept).             *)
(***************************************************************************)
EXTENDS Naturals, Sequences, FiniteSets

CONSTANTS L, MAXLEN

Lanes == 0 .. L - 1
NOJOB == 0

EmptyLanes ==
    [stack |-> [i \in 1 .. L |-> i - 1],
     jil   |-> [l \in Lanes |-> NOJOB],
     lens  |-> [l \in Lanes |-> 0],
     rest  |-> [l \in Lanes |-> <<>>]]        \* phases still to come after the current one

Busy(st) == { l \in Lanes : st.jil[l] # NOJOB }
MinOf(f) == CHOOSE v \in { f[l] : l \in Lanes } : \A l \in Lanes : v <= f[l]
ArgMin(f) == LET m == MinOf(f) IN CHOOSE l \in Lanes : f[l] = m /\ \A k \in Lanes : f[k] = m => l <= k

RECURSIVE Loop(_, _)
Loop(st0, flush) ==
    LET st1 == IF flush THEN [st0 EXCEPT !.lens = [l \in Lanes |-> IF st0.jil[l] = NOJOB THEN MAXLEN ELSE st0.lens[l]]]
               ELSE st0
        idx == ArgMin(st1.lens)
        mn  == st1.lens[idx]
        st2 == [st1 EXCEPT !.lens = [l \in Lanes |-> st1.lens[l] - mn]]
    IN IF st2.rest[idx] # <<>>
       THEN Loop([st2 EXCEPT !.lens[idx] = Head(st2.rest[idx]), !.rest[idx] = Tail(st2.rest[idx])], flush)
       ELSE [st |-> [st2 EXCEPT !.jil[idx] = NOJOB, !.stack = <<idx>> \o st2.stack], ret |-> st2.jil[idx]]

OSubmit(st, j, phases) ==
    LET lane == Head(st.stack)
        st1 == [st EXCEPT !.stack = Tail(st.stack), !.jil[lane] = j,
                          !.lens[lane] = Head(phases), !.rest[lane] = Tail(phases)]
    IN IF st1.stack # <<>> THEN [st |-> st1, ret |-> NOJOB] ELSE Loop(st1, FALSE)

OFlush(st) == IF Busy(st) = {} THEN [st |-> st, ret |-> NOJOB] ELSE Loop(st, TRUE)
=============================================================================
