-------------------------------- MODULE Hmac --------------------------------
(***************************************************************************)
(* Level B state machine over the multi-phase lane operators of            *)
(* OooHmac.tla.  Jobs of arbitrary lengths are submitted and flushed in    *)
(* any order; TLC checks exhaustively, for small lane counts, that the tag *)
(* handed back for each job was computed from exactly that job's blocks,   *)
(* in order, each once (no other lane's data, no idle-lane copy, no        *)
(* block of an earlier occupant of the lane), and the structural lane      *)
(* invariants.                                                             *)
(***************************************************************************)
EXTENDS OooHmac

CONSTANTS MaxJobs, Lens
VARIABLES hst, jlen, tags, nextJob

hvars == <<hst, jlen, tags, nextJob>>

HInit == /\ hst = EmptyLanes /\ jlen = [j \in 1 .. MaxJobs |-> 0]
         /\ tags = [j \in 1 .. MaxJobs |-> <<>>] /\ nextJob = 1

HApply(r) == /\ hst' = r.st
             /\ tags' = IF r.ret = NOJOB THEN tags ELSE [tags EXCEPT ![r.ret] = <<r.tag>>]

HSubmitStep ==
    /\ nextJob <= MaxJobs /\ hst.stack # <<>>
    /\ \E len \in Lens :
          /\ jlen' = [jlen EXCEPT ![nextJob] = len]
          /\ HApply(OSubmit(hst, nextJob, len))
    /\ nextJob' = nextJob + 1

HFlushStep == /\ HApply(OFlush(hst)) /\ UNCHANGED <<jlen, nextJob>>

HNext == HSubmitStep \/ HFlushStep
HSpec == HInit /\ [][HNext]_hvars

\* ---- design-level properties ----
TagExact == \A j \in 1 .. MaxJobs : tags[j] # <<>> => tags[j][1] = ExpectedTag(j, jlen[j])
HStackDisjoint ==
    /\ \A i, k \in 1 .. Len(hst.stack) : i # k => hst.stack[i] # hst.stack[k]
    /\ { hst.stack[i] : i \in 1 .. Len(hst.stack) } = Lanes \ Busy(hst)
HNoDupJob == \A a, b \in Busy(hst) : hst.jil[a] = hst.jil[b] => a = b
HNeverFullAtRest == hst.stack # <<>>
HOnceOnly == \A j \in 1 .. MaxJobs : tags[j] # <<>> => j \notin { hst.jil[l] : l \in Lanes }
\* a busy lane reads its own job's data (or its own scratch blocks), never another job's
HOwnSrc == \A l \in Busy(hst) : hst.src[l].own = hst.jil[l]
\* blocks still to do in the current phase never exceed what the phase holds
HLenSane == \A l \in Busy(hst) :
               LET j == hst.jil[l] s == hst.src[l] IN
               CASE s.kind = "msg"   -> s.pos + hst.lens[l] = NBlocks(jlen[j]) /\ hst.extra[l] = NExtra(jlen[j])
                 [] s.kind = "extra" -> s.pos + hst.lens[l] = NExtra(jlen[j]) /\ hst.extra[l] = 0 /\ ~ hst.outer[l]
                 [] s.kind = "outer" -> s.pos + hst.lens[l] = 1 /\ hst.outer[l]
                 [] OTHER -> FALSE

HInv == TagExact /\ HStackDisjoint /\ HNoDupJob /\ HNeverFullAtRest /\ HOnceOnly /\ HOwnSrc /\ HLenSane
=============================================================================
