----------------------------- MODULE Gen_ImbMgr -----------------------------
(***************************************************************************)
(* Specification -> code direction: TLC's simulator walks the Next         *)
(* relation of ImbMgr (one manager, small ring so that wrap-around and the *)
(* full-queue branch are frequent) while a history variable records the    *)
(* sequence of API operations with their abstract arguments.  When a walk  *)
(* reaches the requested depth the history is written out as one ndjson    *)
(* file; tools/gen_scripts.py turns the files into operation scripts that  *)
(* `imbdrv sched --script' executes against the real library (the recorded *)
(* executions are then validated by Trace_ImbMgr like any other).          *)
(* Which jobs finish inside a call (D) is chosen by the simulator here and *)
(* by the real lanes there, so the two runs may differ in state - every    *)
(* generated operation sequence is nevertheless a legal use of the API.    *)
(***************************************************************************)
EXTENDS ImbMgr, Json, TLC, IOUtils, Randomization

CONSTANT Depth
VARIABLE hist
gvars == <<vars, hist>>

Op(name, a, b, c) == [op |-> name, a |-> a, b |-> b, c |-> c]
m0 == CHOOSE m \in Mgr : TRUE
B2I(x) == IF x THEN 1 ELSE 0

GInit == /\ next = [m \in Mgr |-> 0] /\ Init /\ hist = <<>>

GNext ==
    \/ GetNextJob(m0) /\ hist' = Append(hist, Op("N", 0, 0, 0))
    \/ \E valid \in BOOLEAN, chk \in BOOLEAN, D \in SUBSET (ProcIds(m0) \cup {nextId[m0]}) :
          /\ SubmitJob(m0, valid, chk, 2001, D)
          /\ hist' = Append(hist, Op("S", B2I(chk), B2I(valid), 0))
    \/ \E D \in SUBSET ProcIds(m0) : FlushJob(m0, D) /\ hist' = Append(hist, Op("F", 0, 0, 0))
    \/ GetCompletedJob(m0) /\ hist' = Append(hist, Op("C", 0, 0, 0))
    \/ QueueSize(m0) /\ hist' = Append(hist, Op("Q", 0, 0, 0))
    \/ \E n \in 0 .. MaxBurst : GetNextBurst(m0, n) /\ hist' = Append(hist, Op("NB", n, 0, 0))
    \/ \E k \in 0 .. Len(offered[m0]), chk \in BOOLEAN, bad \in 0 .. Len(offered[m0]),
          D \in SUBSET (ProcIds(m0) \cup { nextId[m0] + i : i \in 0 .. Len(offered[m0]) }) :
          /\ SubmitBurst(m0, k, chk, bad, 2001, D)
          /\ hist' = Append(hist, Op("SB", B2I(chk), k, bad))
    \/ \E mx \in 0 .. N, D \in SUBSET ProcIds(m0) :
          FlushBurst(m0, mx, D) /\ hist' = Append(hist, Op("FB", mx, 0, 0))
    \/ Reattach(m0) /\ hist' = Append(hist, Op("RA", 0, 0, 0))

GSpec == GInit /\ [][GNext]_gvars

\* export every behaviour that reaches the requested depth (evaluated as an invariant; always TRUE)
Export ==
    \/ Len(hist) < Depth
    \/ ndJsonSerialize(IOEnv.GEN_DIR \o "/b_" \o ToString(RandomElement(1 .. 1000000000)) \o ".ndjson", hist)
=============================================================================
