----------------------------- MODULE Trace_Entry -----------------------------
(***************************************************************************)
(* C09: every entry point yields the same result for the same work item.   *)
(* Validates the recorded walk of harness/drv_entry.c: a synchronous burst *)
(* call returns with all of its n jobs completed, each equal to the result *)
(* of the checked single-job call, and leaves the manager empty; a direct  *)
(* function equals the job API. (The asynchronous entry points are judged  *)
(* inside schedules by Trace_ImbMgr with the "out" conjunct.)              *)
(***************************************************************************)
EXTENDS Naturals, Sequences, Json, IOUtils, TLC
Tr == ndJsonDeserialize(IOEnv.TRACE)
CONSTANT AllowKF2,   \* TRUE: the recorded known finding (sync burst completing a parked async job) is tolerated
         JudgeSame   \* TRUE (C09): a direct call must equal the job; FALSE (C07, guarded walk: every object of the direct
                     \* calls flush against inaccessible memory): only faults count - an "EntryFault" event has no action
VARIABLE l

SyncBurstOK(t) ==
    /\ t.ret = t.n                 \* returns the number of jobs it was given ...
    /\ t.ncompleted = t.n          \* ... all of them completed
    /\ t.nbad = 0                  \* ... each with the single-job result (output, tag, status)
    /\ t.errno = 0
    /\ t.qsz_after = 0 /\ t.flush_null = 1     \* (the abi bit of these events is judged by C18)
DirectOK(t) == t.job_st = 3 /\ t.same = 1
MixOK(t) == AllowKF2 \/ (t.burst_ret = 1 /\ t.async_ok_after_flush = 1)

Init == l = 1
Next == /\ l <= Len(Tr) /\ l' = l + 1
        /\ LET t == Tr[l] IN
           \/ t.e = "SyncBurst" /\ SyncBurstOK(t)
           \/ t.e = "Direct" /\ (JudgeSame => DirectOK(t))
           \/ t.e = "MixSyncAsync" /\ MixOK(t)
           \/ t.e = "EntryDone"
Spec == Init /\ [][Next]_l
TraceAccepted ==
    LET d == TLCGet("stats").diameter IN
    IF d - 1 = Len(Tr) THEN TRUE
    ELSE /\ PrintT(<<"TRACE_REJECTED_AT_LINE", d, "OF", Len(Tr)>>)
         /\ FALSE
=============================================================================
