---------------------------- MODULE MC_ImbMgr ----------------------------
EXTENDS ImbMgr
CONSTANT MaxSub
Bound == SubBound(MaxSub)

\* reduced next-state relation for the multi-manager configuration: single-job API, re-init, re-attach
NextJobApi ==
    \E m \in Mgr :
        \/ \E valid \in BOOLEAN, chk \in BOOLEAN, D \in SUBSET (ProcIds(m) \cup {nextId[m]}) :
              SubmitJob(m, valid, chk, 2001, D)
        \/ \E D \in SUBSET ProcIds(m) : FlushJob(m, D)
        \/ GetCompletedJob(m)
        \/ QueueSize(m)
        \/ InitMgr(m, 0, 0)
InitZero == Init /\ next = [m \in Mgr |-> 0]
SpecJobApi == InitZero /\ [][NextJobApi]_vars
\* ghost/history variables are hidden from the state fingerprint except what the invariants need
=============================================================================
