---------------------------- MODULE MC_ImbMgr ----------------------------
EXTENDS ImbMgr
CONSTANT MaxSub
Bound == SubBound(MaxSub)
\* ghost/history variables are hidden from the state fingerprint except what the invariants need
=============================================================================
