-------------------------------- MODULE Chain --------------------------------
(***************************************************************************)
(* Level B state machine: the in-order ring in front of the chaining       *)
(* engine of ChainOps.tla.  Jobs of several suites (cipher unit, hash      *)
(* unit, chain order, lengths) are submitted, flushed and collected in any *)
(* order; TLC checks that the loops of RESUBMIT_JOB and complete_job end,  *)
(* that every unfinished job sits in exactly the unit of its pending       *)
(* stage, that stages run in chain order, each once, and that jobs come    *)
(* back completed and in submission order (C05 C06 at lane level).         *)
(***************************************************************************)
EXTENDS ChainOps, TLC

CONSTANTS N,         \* ring size
          MaxJobs,
          Suites,    \* set of [cu, hu, hc]
          LenPairs   \* set of <<len, hlen>>

VARIABLES ms, info, queue, nextId, returned, ok

cvars == <<ms, info, queue, nextId, returned, ok>>
NoInfo == [cu |-> "sync", hu |-> "sync", hc |-> FALSE, len |-> 0, hlen |-> 0]

CInit == /\ ms = EmptyMachine /\ info = [j \in 1 .. MaxJobs |-> NoInfo] /\ queue = <<>>
         /\ nextId = 1 /\ returned = <<>> /\ ok = TRUE

\* submit_job_and_check after a successful check: submit_new_job; ring full => complete the oldest and hand it
\* back; otherwise hand back the oldest if it is complete
CSubmit ==
    /\ nextId <= MaxJobs /\ ok
    /\ \E su \in Suites, lp \in LenPairs :
         LET j == nextId
             inf == [info EXCEPT ![j] = [cu |-> su.cu, hu |-> su.hu, hc |-> su.hc, len |-> lp[1], hlen |-> lp[2]]]
             r1 == SubmitNew(inf, ms, j)
             q1 == Append(queue, j)
             full == Len(q1) = N - 1            \* next_job caught up with earliest_job
             r2 == IF r1.ok /\ full THEN CompleteJob(inf, r1.ms, Head(q1), Fuel) ELSE r1
             give == r2.ok /\ Completed(r2.ms, Head(q1))
         IN /\ info' = inf
            /\ ms' = r2.ms
            /\ ok' = r2.ok
            /\ queue' = IF give THEN Tail(q1) ELSE q1
            /\ returned' = IF give THEN Append(returned, Head(q1)) ELSE returned
    /\ nextId' = nextId + 1

CFlush ==
    /\ queue # <<>> /\ ok
    /\ LET r == CompleteJob(info, ms, Head(queue), Fuel) IN
         /\ ms' = r.ms /\ ok' = r.ok
         /\ queue' = IF r.ok THEN Tail(queue) ELSE queue
         /\ returned' = IF r.ok THEN Append(returned, Head(queue)) ELSE returned
    /\ UNCHANGED <<info, nextId>>

CGetCompleted ==
    /\ queue # <<>> /\ ok /\ Completed(ms, Head(queue))
    /\ queue' = Tail(queue) /\ returned' = Append(returned, Head(queue))
    /\ UNCHANGED <<ms, info, nextId, ok>>

CNext == CSubmit \/ CFlush \/ CGetCompleted
CSpec == CInit /\ [][CNext]_cvars

-----------------------------------------------------------------------------
Queued == { queue[i] : i \in 1 .. Len(queue) }
FirstDone(j) == IF info[j].hc THEN j \in ms.ad ELSE j \in ms.cd
SecondDone(j) == IF info[j].hc THEN j \in ms.cd ELSE j \in ms.ad
FirstUnit(j) == IF info[j].hc THEN info[j].hu ELSE info[j].cu
SecondUnit(j) == IF info[j].hc THEN info[j].cu ELSE info[j].hu

LoopsEnd == ok
\* stages in chain order
StageOrder == \A j \in 1 .. nextId - 1 : SecondDone(j) => FirstDone(j)
\* an unfinished queued job sits in the unit of its pending stage, and nowhere else
WhereIs == \A j \in 1 .. nextId - 1 : \A un \in DOMAIN U :
              InUnit(ms, un, j) <=> /\ j \in Queued
                                    /\ \/ ~ FirstDone(j) /\ FirstUnit(j) = un
                                       \/ FirstDone(j) /\ ~ SecondDone(j) /\ SecondUnit(j) = un
NothingLost == \A j \in Queued : ~ Completed(ms, j) =>
                  \E un \in DOMAIN U : InUnit(ms, un, j)
\* handed back: complete, once, in submission order
InOrder == /\ \A i \in 1 .. Len(returned) : returned[i] = i
           /\ \A i \in 1 .. Len(returned) : Completed(ms, returned[i])
           /\ returned \o queue = [i \in 1 .. nextId - 1 |-> i]
\* each stage of each job is served exactly once (stage log)
CEntered(j) == j \in ms.cd \/ (info[j].cu # "sync" /\ InUnit(ms, info[j].cu, j))
HEntered(j) == j \in ms.ad \/ (info[j].hu # "sync" /\ InUnit(ms, info[j].hu, j))
Count(tag, j) == Cardinality({ i \in 1 .. Len(ms.log) : ms.log[i][1] = tag /\ ms.log[i][2] = j })
OncePerStage ==
    LogStages => \A j \in 1 .. nextId - 1 :
        /\ Count("c", j) = (IF CEntered(j) THEN 1 ELSE 0)
        /\ Count("h", j) = (IF HEntered(j) THEN 1 ELSE 0)
NeverPersistFull == Len(queue) < N - 1

CInv == LoopsEnd /\ StageOrder /\ WhereIs /\ NothingLost /\ InOrder /\ OncePerStage /\ NeverPersistFull
=============================================================================
