-------------------------------- MODULE Chain --------------------------------
(***************************************************************************)
(* Level B state machine: the in-order ring in front of the chaining       *)
(* engine of ChainOps.tla.  Jobs of several suites (cipher unit, hash      *)
(* unit, chain order, lengths) are submitted, flushed and collected in any *)
(* order; TLC checks that the loops of RESUBMIT_JOB and complete_job end,  *)
(* that every unfinished job sits in exactly the unit of its pending       *)
(* stage, that stages run in chain order, each once, and that jobs come    *)
(* back completed and in submission order (C05 C06 at lane level).         *)
(***************************************************************************)
EXTENDS ChainOps, TLC

CONSTANTS N,         \* ring size
          MaxJobs,
          Suites,    \* set of [cu, hu, hc]
          LenPairs   \* set of <<len, hlen>>

VARIABLES ms, info, queue, nextId, returned, ok,
          sync      \* last synchronous burst: [k, count] (count = its return value)

cvars == <<ms, info, queue, nextId, returned, ok, sync>>
NoInfo == [cu |-> "sync", hu |-> "sync", hc |-> FALSE, len |-> 0, hlen |-> 0]

CInit == /\ ms = EmptyMachine /\ info = [j \in 1 .. MaxJobs |-> NoInfo] /\ queue = <<>>
         /\ nextId = 1 /\ returned = <<>> /\ ok = TRUE /\ sync = [k |-> 0, count |-> 0]

\* submit_job_and_check after a successful check: submit_new_job; ring full => complete the oldest and hand it
\* back; otherwise hand back the oldest if it is complete
CSubmit ==
    /\ nextId <= MaxJobs /\ ok
    /\ \E su \in Suites, lp \in LenPairs :
         LET j == nextId
             inf == [info EXCEPT ![j] = [cu |-> su.cu, hu |-> su.hu, hc |-> su.hc, len |-> lp[1], hlen |-> lp[2]]]
             r1 == SubmitNew(inf, ms, j)
             q1 == Append(queue, j)
             full == Len(q1) = N - 1            \* next_job caught up with earliest_job
             r2 == IF r1.ok /\ full THEN CompleteJob(inf, r1.ms, Head(q1), Fuel) ELSE r1
             give == r2.ok /\ Completed(r2.ms, Head(q1))
         IN /\ info' = inf
            /\ ms' = r2.ms
            /\ ok' = r2.ok
            /\ queue' = IF give THEN Tail(q1) ELSE q1
            /\ returned' = IF give THEN Append(returned, Head(q1)) ELSE returned
    /\ nextId' = nextId + 1 /\ UNCHANGED sync

CFlush ==
    /\ queue # <<>> /\ ok
    /\ LET r == CompleteJob(info, ms, Head(queue), Fuel) IN
         /\ ms' = r.ms /\ ok' = r.ok
         /\ queue' = IF r.ok THEN Tail(queue) ELSE queue
         /\ returned' = IF r.ok THEN Append(returned, Head(queue)) ELSE returned
    /\ UNCHANGED <<info, nextId, sync>>

CGetCompleted ==
    /\ queue # <<>> /\ ok /\ Completed(ms, Head(queue))
    /\ queue' = Tail(queue) /\ returned' = Append(returned, Head(queue))
    /\ UNCHANGED <<ms, info, nextId, ok, sync>>

CNext == CSubmit \/ CFlush \/ CGetCompleted
CSpec == CInit /\ [][CNext]_cvars

-----------------------------------------------------------------------------
(* Asynchronous burst API (lib/include/mb_mgr_burst_async.h): submit_burst_and_check hands every job of    *)
(* the burst to submit_new_burst_job, in order; then it gives back the leading completed jobs, at most as   *)
(* many as it was given; if none is complete and the ring wrapped (earliest_job == next_job) it falls back  *)
(* to FLUSH_BURST of as many jobs.  FLUSH_BURST(max) runs complete_burst_job on the oldest min(queue, max). *)
BurstMax == 2
RECURSIVE CSubmitAll(_, _, _, _)
CSubmitAll(inf, acc, j, lastj) ==
    IF j > lastj \/ ~ acc.ok THEN acc ELSE CSubmitAll(inf, SubmitNew(inf, acc.ms, j), j + 1, lastj)
RECURSIVE CCompleteAll(_, _, _, _, _)
CCompleteAll(inf, acc, pend, i, n) ==
    IF i > n \/ ~ acc.ok THEN acc ELSE CCompleteAll(inf, CompleteJob(inf, acc.ms, pend[i], Fuel), pend, i + 1, n)
\* number of leading completed jobs among the first cnt of pend
LeadRun(m, pend, cnt) ==
    LET c == IF cnt < Len(pend) THEN cnt ELSE Len(pend)
        un == { i \in 1 .. c : ~ Completed(m, pend[i]) }
    IN IF un = {} THEN c ELSE (CHOOSE i \in un : \A x \in un : i <= x) - 1
\* what a burst submission of the suites sus / length pairs lps (sequences of length k) does
BurstOutcome(k, sus, lps) ==
    LET ids == [i \in 1 .. k |-> nextId + i - 1]
        inf == [j \in 1 .. MaxJobs |->
                  IF j >= nextId /\ j < nextId + k
                  THEN LET i == j - nextId + 1 IN
                       [cu |-> sus[i].cu, hu |-> sus[i].hu, hc |-> sus[i].hc, len |-> lps[i][1], hlen |-> lps[i][2]]
                  ELSE info[j]]
        r1 == CSubmitAll(inf, [ms |-> ms, ok |-> TRUE], nextId, nextId + k - 1)
        pend == queue \o ids
        lead == Completed(r1.ms, Head(pend))
        wrapped == Len(pend) = N - 1
        fb == r1.ok /\ wrapped /\ ~ lead
        r2 == IF fb THEN CCompleteAll(inf, r1, pend, 1, k) ELSE r1
        r == IF r2.ok THEN LeadRun(r2.ms, pend, k) ELSE 0
    IN [inf |-> inf, ms |-> r2.ms, ok |-> r2.ok, pend |-> pend, r |-> r, fallback |-> fb]
CSubmitBurstK(k) ==
    /\ ok /\ nextId + k - 1 <= MaxJobs
    /\ Len(queue) + k <= N - 1                    \* the slots GET_NEXT_BURST handed out
    /\ \E sus \in [1 .. k -> Suites], lps \in [1 .. k -> LenPairs] :
         LET o == BurstOutcome(k, sus, lps) IN
         /\ info' = o.inf /\ ms' = o.ms /\ ok' = o.ok
         /\ queue' = SubSeq(o.pend, o.r + 1, Len(o.pend))
         /\ returned' = returned \o SubSeq(o.pend, 1, o.r)
    /\ nextId' = nextId + k /\ UNCHANGED sync
FlushOutcome(mx) ==
    LET n == IF Len(queue) < mx THEN Len(queue) ELSE mx
        r == CCompleteAll(info, [ms |-> ms, ok |-> TRUE], queue, 1, n)
    IN [ms |-> r.ms, ok |-> r.ok, n |-> IF r.ok THEN n ELSE 0]
CFlushBurstN(mx) ==
    /\ ok
    /\ LET o == FlushOutcome(mx) IN
         /\ ms' = o.ms /\ ok' = o.ok
         /\ queue' = SubSeq(queue, o.n + 1, Len(queue))
         /\ returned' = returned \o SubSeq(queue, 1, o.n)
    /\ UNCHANGED <<info, nextId, sync>>
CSubmitBurst == \E k \in 1 .. BurstMax : CSubmitBurstK(k)
CFlushBurst == \E mx \in 0 .. N - 1 : CFlushBurstN(mx)
\* job API and burst API mixed on one manager
CSpecBurst == CInit /\ [][CNext \/ CSubmitBurst \/ CFlushBurst]_cvars
\* FLUSH_BURST(max) on a manager holding at least max jobs returns max jobs; a burst never returns more than it was given
BurstExact == [][\A mx \in 0 .. N - 1 : CFlushBurstN(mx) /\ ok' =>
                   Len(returned') - Len(returned) = (IF Len(queue) < mx THEN Len(queue) ELSE mx)]_cvars

-----------------------------------------------------------------------------
(* Synchronous cipher burst (lib/include/mb_mgr_burst.h, submit_aes_cbc_burst_enc): k caller-owned jobs     *)
(* go straight into the SAME out-of-order unit the asynchronous API uses; whatever the unit hands back is    *)
(* marked COMPLETED and counted; if fewer than k came back the unit is flushed until it is empty.            *)
(* SyncUnit = the cipher unit used, sync jobs get ids above MaxJobs.                                         *)
CONSTANT SyncUnit
MarkDone(m, j) == IF j = NOJ THEN m ELSE [m EXCEPT !.cd = @ \cup {j}, !.ad = @ \cup {j}]    \* status = COMPLETED
RECURSIVE SyncSubmit(_, _, _, _, _)
SyncSubmit(m, k, len, i, cnt) ==
    IF i > k THEN [ms |-> m, count |-> cnt]
    ELSE LET r == USubmit(SyncUnit, m.u[SyncUnit], MaxJobs + i, len, 0) IN
         SyncSubmit(MarkDone([m EXCEPT !.u[SyncUnit] = r.st], r.ret), k, len, i + 1, IF r.ret = NOJ THEN cnt ELSE cnt + 1)
RECURSIVE SyncDrain(_, _, _)
SyncDrain(m, cnt, fuel) ==
    LET r == UFlush(SyncUnit, m.u[SyncUnit]) IN
    IF r.ret = NOJ \/ fuel = 0 THEN [ms |-> m, count |-> cnt]
    ELSE SyncDrain(MarkDone([m EXCEPT !.u[SyncUnit] = r.st], r.ret), cnt + 1, fuel - 1)

\* quiet = TRUE: only when no asynchronous job is parked in the unit (the condition under which the call is sound)
CSyncBurst(quiet) ==
    /\ ok
    /\ quiet => UBusyJobs(SyncUnit, ms.u[SyncUnit]) = {}
    /\ \E k \in 1 .. 2, len \in {16, 48} :
         LET r1 == SyncSubmit(ms, k, len, 1, 0)
             r2 == IF r1.count # k THEN SyncDrain(r1.ms, r1.count, Fuel) ELSE r1
         IN /\ ms' = r2.ms
            /\ sync' = [k |-> k, count |-> r2.count]
    /\ UNCHANGED <<info, queue, nextId, returned, ok>>

CSpecSyncQuiet == CInit /\ [][CNext \/ CSyncBurst(TRUE)]_cvars
CSpecSyncAny == CInit /\ [][CNext \/ CSyncBurst(FALSE)]_cvars
\* the call returns exactly the number of jobs it was given
SyncExact == sync.count = sync.k

-----------------------------------------------------------------------------
Queued == { queue[i] : i \in 1 .. Len(queue) }
FirstDone(j) == IF info[j].hc THEN j \in ms.ad ELSE j \in ms.cd
SecondDone(j) == IF info[j].hc THEN j \in ms.cd ELSE j \in ms.ad
FirstUnit(j) == IF info[j].hc THEN info[j].hu ELSE info[j].cu
SecondUnit(j) == IF info[j].hc THEN info[j].cu ELSE info[j].hu

LoopsEnd == ok
\* stages in chain order
StageOrder == \A j \in 1 .. nextId - 1 : SecondDone(j) => FirstDone(j)
\* an unfinished queued job sits in the unit of its pending stage, and nowhere else
WhereIs == \A j \in 1 .. nextId - 1 : \A un \in DOMAIN U :
              InUnit(ms, un, j) <=> /\ j \in Queued
                                    /\ \/ ~ FirstDone(j) /\ FirstUnit(j) = un
                                       \/ FirstDone(j) /\ ~ SecondDone(j) /\ SecondUnit(j) = un
NothingLost == \A j \in Queued : ~ Completed(ms, j) =>
                  \E un \in DOMAIN U : InUnit(ms, un, j)
\* handed back: complete, once, in submission order
InOrder == /\ \A i \in 1 .. Len(returned) : returned[i] = i
           /\ \A i \in 1 .. Len(returned) : Completed(ms, returned[i])
           /\ returned \o queue = [i \in 1 .. nextId - 1 |-> i]
\* each stage of each job is served exactly once (stage log)
CEntered(j) == j \in ms.cd \/ (info[j].cu \in DOMAIN U /\ InUnit(ms, info[j].cu, j))
HEntered(j) == j \in ms.ad \/ (info[j].hu \in DOMAIN U /\ InUnit(ms, info[j].hu, j))
Count(tag, j) == Cardinality({ i \in 1 .. Len(ms.log) : ms.log[i][1] = tag /\ ms.log[i][2] = j })
OncePerStage ==
    LogStages => \A j \in 1 .. nextId - 1 :
        /\ Count("c", j) = (IF CEntered(j) THEN 1 ELSE 0)
        /\ Count("h", j) = (IF HEntered(j) THEN 1 ELSE 0)
NeverPersistFull == Len(queue) < N - 1

CInv == LoopsEnd /\ StageOrder /\ WhereIs /\ NothingLost /\ InOrder /\ OncePerStage /\ NeverPersistFull
=============================================================================
