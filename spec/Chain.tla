-------------------------------- MODULE Chain --------------------------------
(***************************************************************************)
(* Level B state machine: the in-order ring in front of the chaining       *)
(* engine of ChainOps.tla.  Jobs of several suites (cipher unit, hash      *)
(* unit, chain order, lengths) are submitted, flushed and collected in any *)
(* order; TLC checks that the loops of RESUBMIT_JOB and complete_job end,  *)
(* that every unfinished job sits in exactly the unit of its pending       *)
(* stage, that stages run in chain order, each once, and that jobs come    *)
(* back completed and in submission order (C05 C06 at lane level).         *)
(***************************************************************************)
EXTENDS ChainOps, TLC

CONSTANTS N,         \* ring size
          MaxJobs,
          Suites,    \* set of [cu, hu, hc]
          LenPairs   \* set of <<len, hlen>>

VARIABLES ms, info, queue, nextId, returned, ok,
          sync      \* last synchronous burst: [k, count] (count = its return value)

cvars == <<ms, info, queue, nextId, returned, ok, sync>>
NoInfo == [cu |-> "sync", hu |-> "sync", hc |-> FALSE, len |-> 0, hlen |-> 0]

CInit == /\ ms = EmptyMachine /\ info = [j \in 1 .. MaxJobs |-> NoInfo] /\ queue = <<>>
         /\ nextId = 1 /\ returned = <<>> /\ ok = TRUE /\ sync = [k |-> 0, count |-> 0]

\* submit_job_and_check after a successful check: submit_new_job; ring full => complete the oldest and hand it
\* back; otherwise hand back the oldest if it is complete
CSubmit ==
    /\ nextId <= MaxJobs /\ ok
    /\ \E su \in Suites, lp \in LenPairs :
         LET j == nextId
             inf == [info EXCEPT ![j] = [cu |-> su.cu, hu |-> su.hu, hc |-> su.hc, len |-> lp[1], hlen |-> lp[2]]]
             r1 == SubmitNew(inf, ms, j)
             q1 == Append(queue, j)
             full == Len(q1) = N - 1            \* next_job caught up with earliest_job
             r2 == IF r1.ok /\ full THEN CompleteJob(inf, r1.ms, Head(q1), Fuel) ELSE r1
             give == r2.ok /\ Completed(r2.ms, Head(q1))
         IN /\ info' = inf
            /\ ms' = r2.ms
            /\ ok' = r2.ok
            /\ queue' = IF give THEN Tail(q1) ELSE q1
            /\ returned' = IF give THEN Append(returned, Head(q1)) ELSE returned
    /\ nextId' = nextId + 1 /\ UNCHANGED sync

CFlush ==
    /\ queue # <<>> /\ ok
    /\ LET r == CompleteJob(info, ms, Head(queue), Fuel) IN
         /\ ms' = r.ms /\ ok' = r.ok
         /\ queue' = IF r.ok THEN Tail(queue) ELSE queue
         /\ returned' = IF r.ok THEN Append(returned, Head(queue)) ELSE returned
    /\ UNCHANGED <<info, nextId, sync>>

CGetCompleted ==
    /\ queue # <<>> /\ ok /\ Completed(ms, Head(queue))
    /\ queue' = Tail(queue) /\ returned' = Append(returned, Head(queue))
    /\ UNCHANGED <<ms, info, nextId, ok, sync>>

CNext == CSubmit \/ CFlush \/ CGetCompleted
CSpec == CInit /\ [][CNext]_cvars

-----------------------------------------------------------------------------
(* Synchronous cipher burst (lib/include/mb_mgr_burst.h, submit_aes_cbc_burst_enc): k caller-owned jobs     *)
(* go straight into the SAME out-of-order unit the asynchronous API uses; whatever the unit hands back is    *)
(* marked COMPLETED and counted; if fewer than k came back the unit is flushed until it is empty.            *)
(* SyncUnit = the cipher unit used, sync jobs get ids above MaxJobs.                                         *)
CONSTANT SyncUnit
MarkDone(m, j) == IF j = NOJ THEN m ELSE [m EXCEPT !.cd = @ \cup {j}, !.ad = @ \cup {j}]    \* status = COMPLETED
RECURSIVE SyncSubmit(_, _, _, _, _)
SyncSubmit(m, k, len, i, cnt) ==
    IF i > k THEN [ms |-> m, count |-> cnt]
    ELSE LET r == USubmit(SyncUnit, m.u[SyncUnit], MaxJobs + i, len, 0) IN
         SyncSubmit(MarkDone([m EXCEPT !.u[SyncUnit] = r.st], r.ret), k, len, i + 1, IF r.ret = NOJ THEN cnt ELSE cnt + 1)
RECURSIVE SyncDrain(_, _, _)
SyncDrain(m, cnt, fuel) ==
    LET r == UFlush(SyncUnit, m.u[SyncUnit]) IN
    IF r.ret = NOJ \/ fuel = 0 THEN [ms |-> m, count |-> cnt]
    ELSE SyncDrain(MarkDone([m EXCEPT !.u[SyncUnit] = r.st], r.ret), cnt + 1, fuel - 1)

\* quiet = TRUE: only when no asynchronous job is parked in the unit (the condition under which the call is sound)
CSyncBurst(quiet) ==
    /\ ok
    /\ quiet => UBusyJobs(SyncUnit, ms.u[SyncUnit]) = {}
    /\ \E k \in 1 .. 2, len \in {16, 48} :
         LET r1 == SyncSubmit(ms, k, len, 1, 0)
             r2 == IF r1.count # k THEN SyncDrain(r1.ms, r1.count, Fuel) ELSE r1
         IN /\ ms' = r2.ms
            /\ sync' = [k |-> k, count |-> r2.count]
    /\ UNCHANGED <<info, queue, nextId, returned, ok>>

CSpecSyncQuiet == CInit /\ [][CNext \/ CSyncBurst(TRUE)]_cvars
CSpecSyncAny == CInit /\ [][CNext \/ CSyncBurst(FALSE)]_cvars
\* the call returns exactly the number of jobs it was given
SyncExact == sync.count = sync.k

-----------------------------------------------------------------------------
Queued == { queue[i] : i \in 1 .. Len(queue) }
FirstDone(j) == IF info[j].hc THEN j \in ms.ad ELSE j \in ms.cd
SecondDone(j) == IF info[j].hc THEN j \in ms.cd ELSE j \in ms.ad
FirstUnit(j) == IF info[j].hc THEN info[j].hu ELSE info[j].cu
SecondUnit(j) == IF info[j].hc THEN info[j].cu ELSE info[j].hu

LoopsEnd == ok
\* stages in chain order
StageOrder == \A j \in 1 .. nextId - 1 : SecondDone(j) => FirstDone(j)
\* an unfinished queued job sits in the unit of its pending stage, and nowhere else
WhereIs == \A j \in 1 .. nextId - 1 : \A un \in DOMAIN U :
              InUnit(ms, un, j) <=> /\ j \in Queued
                                    /\ \/ ~ FirstDone(j) /\ FirstUnit(j) = un
                                       \/ FirstDone(j) /\ ~ SecondDone(j) /\ SecondUnit(j) = un
NothingLost == \A j \in Queued : ~ Completed(ms, j) =>
                  \E un \in DOMAIN U : InUnit(ms, un, j)
\* handed back: complete, once, in submission order
InOrder == /\ \A i \in 1 .. Len(returned) : returned[i] = i
           /\ \A i \in 1 .. Len(returned) : Completed(ms, returned[i])
           /\ returned \o queue = [i \in 1 .. nextId - 1 |-> i]
\* each stage of each job is served exactly once (stage log)
CEntered(j) == j \in ms.cd \/ (info[j].cu \in DOMAIN U /\ InUnit(ms, info[j].cu, j))
HEntered(j) == j \in ms.ad \/ (info[j].hu \in DOMAIN U /\ InUnit(ms, info[j].hu, j))
Count(tag, j) == Cardinality({ i \in 1 .. Len(ms.log) : ms.log[i][1] = tag /\ ms.log[i][2] = j })
OncePerStage ==
    LogStages => \A j \in 1 .. nextId - 1 :
        /\ Count("c", j) = (IF CEntered(j) THEN 1 ELSE 0)
        /\ Count("h", j) = (IF HEntered(j) THEN 1 ELSE 0)
NeverPersistFull == Len(queue) < N - 1

CInv == LoopsEnd /\ StageOrder /\ WhereIs /\ NothingLost /\ InOrder /\ OncePerStage /\ NeverPersistFull
=============================================================================
