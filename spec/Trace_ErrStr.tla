---------------------------- MODULE Trace_ErrStr ----------------------------
(***************************************************************************)
(* C14, last clause: error-string lookup is total.  The recorded sweep     *)
(* (harness/drv_strerr.c) calls imb_get_strerror() for every integer in    *)
(* [-300, IMB_ERR_MAX + 300] and for extreme values.  Specification:       *)
(*   - every call returns (no fault) a non-NULL, non-empty string;         *)
(*   - 0 maps to "No error";                                               *)
(*   - every library code strictly between IMB_ERR_MIN and IMB_ERR_MAX has *)
(*     its own message: not an "Unknown error" text, and no two codes      *)
(*     share a message except the documented pair NULL_MBMGR / ... none    *)
(*     (messages are compared through a 30-bit hash);                      *)
(*   - codes at or above IMB_ERR_MAX map to "Unknown error".               *)
(***************************************************************************)
EXTENDS Naturals, Sequences, FiniteSets, Json, IOUtils, TLC
Tr == ndJsonDeserialize(IOEnv.TRACE)
VARIABLES l, seen, lo, hi       \* seen: message hashes of library codes so far
vars == <<l, seen, lo, hi>>

Init == l = 1 /\ seen = {} /\ lo = 0 /\ hi = 0

Begin == /\ l = 1 /\ Tr[1].e = "StrErrBegin"
         /\ lo' = Tr[1].min /\ hi' = Tr[1].max /\ hi' > lo' + 40    \* the enum is not empty
         /\ l' = 2 /\ UNCHANGED seen

IsLib(t) == t.neg = 0 /\ t.code > lo /\ t.code < hi

One ==
    /\ l > 1 /\ l <= Len(Tr) /\ Tr[l].e = "StrErr"
    /\ LET t == Tr[l] IN
       /\ t.fault = 0 /\ t.null = 0 /\ t.len > 0 /\ t.abi = 0       \* total
       /\ (t.neg = 0 /\ t.code = 0) => t.noerr = 1
       /\ (t.neg = 0 /\ t.code >= hi) => t.unknown = 1
       /\ IsLib(t) => (t.unknown = 0 /\ t.noerr = 0 /\ t.h \notin seen)   \* a message of its own
       /\ seen' = IF IsLib(t) THEN seen \cup {t.h} ELSE seen
    /\ l' = l + 1 /\ UNCHANGED <<lo, hi>>

End == /\ l = Len(Tr) /\ Tr[l].e = "StrErrEnd"
       /\ Cardinality(seen) = hi - lo - 1               \* every library code was looked up
       /\ l' = l + 1 /\ UNCHANGED <<seen, lo, hi>>

Next == Begin \/ One \/ End
Spec == Init /\ [][Next]_vars
TraceAccepted ==
    LET d == TLCGet("stats").diameter IN
    IF d - 1 = Len(Tr) THEN TRUE
    ELSE /\ PrintT(<<"TRACE_REJECTED_AT_LINE", d, "OF", Len(Tr)>>)
         /\ FALSE
=============================================================================
