---------------------------- MODULE MC_CpuSelect ----------------------------
EXTENDS CpuSelect, TLC
\* all subsets of the 15 independently switchable feature groups used by the driver, as bit masks
Groups == << {SHANI}, {AESNI}, {PCLMUL}, {CMOV}, {SSE42}, {AVX}, {XSAVE, OSXSAVE}, {AVX2}, {BMI2},
             {AVX512F, AVX512DQ}, {AVX512CD, AVX512BW, AVX512VL}, {VAES}, {VPCLMUL}, {GFNI}, {AVX512IFMA} >>
RECURSIVE SumBits(_)
SumBits(S) == IF S = {} THEN 0 ELSE LET k == CHOOSE x \in S : TRUE IN Pow2(k) + SumBits(S \ {k})
MaskOf(sel) == SumBits(UNION { Groups[g] : g \in sel })
F == { MaskOf(sel) : sel \in SUBSET (1 .. 15) }
ASSUME NeverUnsupported(F)
ASSUME FlagsOnlyRemove(F)
ASSUME AutoPicksBest(F)
ASSUME PrintT(<<"FEATURE_SETS", Cardinality(F)>>)
VARIABLE x
Init == x = 0
Next == x' = x
Spec == Init /\ [][Next]_x
=============================================================================
