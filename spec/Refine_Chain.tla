---------------------------- MODULE Refine_Chain ----------------------------
(***************************************************************************)
(* Refinement level B => level A.  The chaining machine of Chain.tla       *)
(* (ring in front of the out-of-order units) implements the job-API        *)
(* actions of ImbMgr.tla under the mapping below: every CSubmit / CFlush / *)
(* CGetCompleted step is a SubmitJob / FlushJob / GetCompletedJob step of  *)
(* the level-A specification for the set D of jobs whose last stage ends   *)
(* inside the call - the set that level A leaves open and that the lane    *)
(* machines determine.  (Chain counts its ring one slot larger: its N is   *)
(* level A's N + 1.)  hist is the history variable that carries level A's  *)
(* description of the last call.                                           *)
(***************************************************************************)
EXTENDS MC_Chain, Integers
VARIABLE hist
rvars == <<cvars, hist>>

NI == N - 1
SlotIdx(j) == (j - 1) % NI
InQ == { queue[i] : i \in 1 .. Len(queue) }
JobAt(i) == CHOOSE j \in InQ : SlotIdx(j) = i
mEarliest == [m \in {0} |-> IF queue = <<>> THEN -1 ELSE SlotIdx(Head(queue))]
mNext == [m \in {0} |-> (nextId - 1) % NI]
mSlot == [m \in {0} |-> [i \in 0 .. NI - 1 |->
            IF \E j \in InQ : SlotIdx(j) = i
            THEN [id |-> JobAt(i) - 1, st |-> IF Completed(ms, JobAt(i)) THEN "done" ELSE "proc"]
            ELSE [id |-> -1, st |-> "free"]]]
mPending == [m \in {0} |-> [i \in 1 .. Len(queue) |-> queue[i] - 1]]

IM == INSTANCE ImbMgr WITH N <- NI, Mgr <- {0}, MaxBurst <- 1, NONE <- "none",
          earliest <- mEarliest, next <- mNext, slot <- mSlot,
          offered <- [m \in {0} |-> <<>>], errno <- [m \in {0} |-> 0], gerrno <- 0,
          pending <- mPending, nsub <- [m \in {0} |-> nextId - 1], nret <- [m \in {0} |-> Len(returned)],
          nextId <- [m \in {0} |-> nextId - 1], last <- hist

QS == IF queue = <<>> THEN 0 ELSE Len(queue)          \* queue_sz() of the mapped ring (never full at rest)
Rec(op, qb, ids, sts, exp, slots) == [op |-> op, m |-> 0, qbefore |-> qb, ret |-> ids, slots |-> slots, rst |-> sts, exp |-> exp]

RInit == CInit /\ hist = [op |-> "Init", m |-> "none", qbefore |-> 0, ret |-> <<>>, slots |-> <<>>, rst |-> <<>>, exp |-> <<>>]
RSubmit == /\ CSubmit
           /\ LET q1 == Append(queue, nextId)
                  gave == Len(returned') = Len(returned) + 1
                  o == Head(q1) - 1
                  full == Len(q1) = NI
              IN hist' = Rec(IF full /\ queue # <<>> THEN "SubmitJobFull" ELSE "SubmitJob", QS,
                             IF gave THEN <<o>> ELSE <<>>, IF gave THEN <<"done">> ELSE <<>>, IF gave THEN <<o>> ELSE <<>>,
                             <<SlotIdx(nextId)>>)
RFlush == /\ CFlush
          /\ LET o == Head(queue) - 1 IN hist' = Rec("FlushJob", QS, <<o>>, <<"done">>, <<o>>, <<>>)
RGet == /\ CGetCompleted
        /\ LET o == Head(queue) - 1 IN hist' = Rec("GetCompletedJob", QS, <<o>>, <<"done">>, <<o>>, <<>>)
RNext == RSubmit \/ RFlush \/ RGet
RSpec == RInit /\ [][RNext]_rvars

\* the job-API part of level A, for some completion set D
Ids == 0 .. MaxJobs - 1
ANext == \E D \in SUBSET Ids : \/ IM!SubmitJob(0, TRUE, TRUE, 2001, D)
                              \/ IM!FlushJob(0, D)
                              \/ IM!GetCompletedJob(0)
ImplementsLevelA == IM!Init /\ [][ANext]_(IM!vars)
\* and the level-A contract invariants hold of the mapped state
LevelAInv == IM!TypeOK
=============================================================================
