---------------------------- MODULE Trace_ImbMgr ----------------------------
(***************************************************************************)
(* Trace validation of recorded executions of the real library against     *)
(* the level-A specification ImbMgr.  One ndjson line per API call         *)
(* (harness/drv_sched.c et al.); every action below is                     *)
(*     IsEvent(name) /\ <spec action with the logged arguments>            *)
(*                   /\ <model's prediction = logged observation>          *)
(* and all invariants of ImbMgr are evaluated in every state.  The model   *)
(* is deterministic once D (the set of jobs that finished inside the call, *)
(* recorded by the harness) is fixed, so the search is linear.             *)
(***************************************************************************)
EXTENDS ImbMgr, Json, IOUtils, TLC

Tr == ndJsonDeserialize(IOEnv.TRACE)

VARIABLE l
tvars == <<vars, l>>

M(t) == IF "m" \in DOMAIN t THEN t.m ELSE 0

IsEvent(e) == l <= Len(Tr) /\ Tr[l].e = e /\ l' = l + 1

StCode(st) == IF st = "done" THEN 3 ELSE IF st = "inv" THEN 4 ELSE 0

\* Which observations this run insists on (one trace format serves several properties; a check for
\* property P only judges P's conjuncts, so that a defect is reported under the right property):
\*   "ring"   C05  ring indexes, hand-back order, statuses
\*   "errno"  C14  per-manager and process-wide error codes after every call
\*   "desc"   C14  descriptor fields identical at hand-back
\*   "out"    C04  output/tag/status equal to the same job run alone on a fresh manager
\*   "mem"    C07  source intact, guard bytes intact, rejected jobs' buffers untouched
\*   "abi"    C18  calling convention intact on every call
CONSTANT Checks

Has(c) == c \in Checks

\* what every call event carries
Observed(t, m) ==
    /\ Has("ring") => /\ earliest'[m] = t.earliest
                      /\ next'[m] = t.next
    /\ Has("errno") => /\ errno'[m] = t.errno
                       /\ gerrno' = t.gerrno
    /\ Has("abi") => t.abi = 0
    /\ last'.ret = t.ret              \* exactly these jobs were handed back, in this order
    /\ Len(t.rst) = Len(t.ret)
    /\ \A i \in 1 .. Len(t.ret) :     \* with exactly the status the model says they have
          t.rst[i] = StCode(retst'[m][Len(retst'[m]) - Len(t.ret) + i])
    /\ Has("out") => t.b_out = 0
    /\ Has("mem") => t.b_mem = 0
    /\ Has("desc") => t.b_desc = 0

TraceInit ==
    /\ l = 1
    /\ Init
    /\ next = [m \in Mgr |-> 0]      \* the first Reset event supplies the real value

\* a new execution starts on a freshly allocated and initialised manager
TReset ==
    /\ IsEvent("Reset")
    /\ LET t == Tr[l] m == M(t) IN
       /\ InitMgr(m, t.next, 0)

TGetNextJob ==
    /\ IsEvent("GetNextJob")
    /\ LET t == Tr[l] m == M(t) IN
       /\ GetNextJob(m)
       /\ t.slot = next[m]
       /\ t.clash = 0
       /\ Has("errno") => (errno'[m] = t.errno /\ gerrno' = t.gerrno)
       /\ Has("abi") => t.abi = 0
       /\ earliest[m] = t.earliest /\ next[m] = t.next

TSubmitJob ==
    /\ IsEvent("SubmitJob")
    /\ LET t == Tr[l] m == M(t) IN
       /\ t.id = nextId[m]
       /\ t.slot = next[m]
       /\ SubmitJob(m, t.valid = 1, t.chk = 1, t.experr, ToSet(t.done))
       /\ Observed(t, m)

TFlushJob ==
    /\ IsEvent("FlushJob")
    /\ LET t == Tr[l] m == M(t) IN
       /\ FlushJob(m, ToSet(t.done))
       /\ Observed(t, m)

TGetCompletedJob ==
    /\ IsEvent("GetCompletedJob")
    /\ LET t == Tr[l] m == M(t) IN
       /\ t.done = <<>>
       /\ GetCompletedJob(m)
       /\ Observed(t, m)

TQueueSize ==
    /\ IsEvent("QueueSize")
    /\ LET t == Tr[l] m == M(t) IN
       /\ t.done = <<>>
       /\ QueueSize(m)
       /\ t.q = QSize(m)
       /\ earliest'[m] = t.earliest /\ next'[m] = t.next
       /\ Has("errno") => (errno'[m] = t.errno /\ gerrno' = t.gerrno)
       /\ Has("abi") => t.abi = 0

TGetNextBurst ==
    /\ IsEvent("GetNextBurst")
    /\ LET t == Tr[l] m == M(t) IN
       /\ t.done = <<>>
       /\ GetNextBurst(m, t.n)
       /\ last'.slots = t.slots
       /\ t.clash = 0
       /\ earliest'[m] = t.earliest /\ next'[m] = t.next
       /\ Has("errno") => (errno'[m] = t.errno /\ gerrno' = t.gerrno)
       /\ Has("abi") => t.abi = 0

TSubmitBurst ==
    /\ IsEvent("SubmitBurst")
    /\ LET t == Tr[l] m == M(t) k == Len(t.ids) IN
       /\ \A i \in 1 .. k : t.ids[i] = nextId[m] + i - 1
       /\ t.slots = SubSeq(offered[m], 1, k)
       /\ IF t.valid = 1
          THEN /\ SubmitBurst(m, k, t.chk = 1, 0, 0, ToSet(t.done))
               /\ t.rejected = 0
          ELSE /\ \E bad \in 1 .. k : SubmitBurst(m, k, TRUE, bad, t.experr, ToSet(t.done))
               /\ t.rejected = 1
               /\ Has("mem") => t.touched = 0   \* a refused burst leaves every caller buffer alone
               /\ t.offender_st = 4
       /\ t.nret = Len(t.ret)
       /\ Observed(t, m)

TFlushBurst ==
    /\ IsEvent("FlushBurst")
    /\ LET t == Tr[l] m == M(t) IN
       /\ FlushBurst(m, t.max, ToSet(t.done))
       /\ t.nret = Len(t.ret)
       /\ Observed(t, m)

\* end of an execution: everything submitted came back, guard bytes intact
TEnd ==
    /\ IsEvent("End")
    /\ LET t == Tr[l] m == M(t) IN
       /\ Len(sublog[m]) = t.nsub
       /\ Len(retlog[m]) = t.nret
       /\ t.nsub = t.nret
       /\ QSize(m) = 0
       /\ Has("mem") => t.canary = 0
       /\ Has("abi") => t.abi_viol = 0
    /\ UNCHANGED vars

TraceNext ==
    \/ TReset \/ TGetNextJob \/ TSubmitJob \/ TFlushJob \/ TGetCompletedJob \/ TQueueSize
    \/ TGetNextBurst \/ TSubmitBurst \/ TFlushBurst \/ TEnd

TraceSpec == TraceInit /\ [][TraceNext]_tvars

\* the search is a chain: one state per consumed line plus the initial state
TraceAccepted ==
    LET d == TLCGet("stats").diameter IN
    IF d - 1 = Len(Tr) THEN TRUE
    ELSE /\ PrintT(<<"TRACE_REJECTED_AT_LINE", d, "OF", Len(Tr)>>)
         /\ FALSE
=============================================================================
