---------------------------- MODULE Trace_ImbMgr ----------------------------
(***************************************************************************)
(* Trace validation of recorded executions of the real library against     *)
(* the level-A specification ImbMgr.  One ndjson line per API call         *)
(* (harness/drv_sched.c et al.); every action below is                     *)
(*     IsEvent(name) /\ <spec action with the logged arguments>            *)
(*                   /\ <model's prediction = logged observation>          *)
(* and all invariants of ImbMgr are evaluated in every state.  The model   *)
(* is deterministic once D (the set of jobs that finished inside the call, *)
(* recorded by the harness) is fixed, so the search is linear.             *)
(***************************************************************************)
EXTENDS ImbMgr, Json, IOUtils, TLC

Tr == ndJsonDeserialize(IOEnv.TRACE)

VARIABLE l
\* trace-only bookkeeping for the stage machine (C06 in multi-job schedules, hook H1):
\*   suiteOf : id -> suite cell of every job in flight
\*   plan    : id -> stage submissions still owed by that job (sequence of <<"cipher"|"hash", row>>)
VARIABLES suiteOf, plan
\* cfail : <<manager, id>> of jobs in flight whose CUSTOM cipher/hash call-back reports failure; such a job
\*         finishes (in the call that runs the call-back) and is handed back in order like any other, with
\*         status INTERNAL_ERROR instead of COMPLETED
VARIABLE cfail
tvars == <<vars, l, suiteOf, plan, cfail>>

D == INSTANCE Dispatch

M(t) == IF "m" \in DOMAIN t THEN t.m ELSE 0

IsEvent(e) == l <= Len(Tr) /\ Tr[l].e = e /\ l' = l + 1

StCode(st) == IF st = "done" THEN 3 ELSE IF st = "inv" THEN 4 ELSE 0
\* jobs announced as failing by this very event (SubmitJob: cfail > 0; SubmitBurst: cfails[i] > 0; bit 0 cipher, bit 1 hash call-back)
NewFails(t, m) ==
    (IF "cfail" \in DOMAIN t /\ t.cfail > 0 /\ t.valid = 1 THEN {<<m, t.id>>} ELSE {})
    \cup (IF "cfails" \in DOMAIN t /\ t.rejected = 0 THEN { <<m, t.ids[i]>> : i \in { k \in 1 .. Len(t.ids) : t.cfails[k] > 0 } } ELSE {})

\* Which observations this run insists on (one trace format serves several properties; a check for
\* property P only judges P's conjuncts, so that a defect is reported under the right property):
\*   "ring"   C05  ring indexes, hand-back order, statuses
\*   "errno"  C14  per-manager and process-wide error codes after every call
\*   "desc"   C14  descriptor fields identical at hand-back
\*   "out"    C04  output/tag/status equal to the same job run alone on a fresh manager
\*   "mem"    C07  source intact, guard bytes intact, rejected jobs' buffers untouched
\*   "abi"    C18  calling convention intact on every call
CONSTANT Checks

Has(c) == c \in Checks

\* what every call event carries
Observed(t, m) ==
    /\ Has("ring") => /\ earliest'[m] = t.earliest
                      /\ next'[m] = t.next
    /\ Has("errno") => /\ errno'[m] = t.errno
                       /\ gerrno' = t.gerrno
    /\ Has("abi") => t.abi = 0
    /\ last'.ret = t.ret              \* exactly these jobs were handed back, in this order
    /\ Len(t.rst) = Len(t.ret)
    /\ \A i \in 1 .. Len(t.ret) :     \* with exactly the status the model says they have
          t.rst[i] = (IF last'.rst[i] = "done" /\ <<m, t.ret[i]>> \in cfail \cup NewFails(t, m) THEN 5
                      ELSE StCode(last'.rst[i]))
    /\ cfail' = (cfail \cup NewFails(t, m)) \ { <<m, t.ret[i]>> : i \in 1 .. Len(t.ret) }
    /\ Has("out") => t.b_out = 0
    /\ Has("ref") => t.b_ref = 0       \* every handed-back job of the judged class equals the reference interpretation
    /\ Has("mem") => t.b_mem = 0
    /\ Has("desc") => t.b_desc = 0
    \* C13 (SAFE_DATA): in a quiescent state no key material or plaintext is left in registers, in the
    \* dead stack or in the manager's storage
    /\ Has("residue") => (t.res_reg = 0 /\ t.res_stk = 0 /\ t.res_mgr = 0)

CellOfSuite(su) == [mode |-> su[1], klen |-> su[2], dir |-> su[3], hash |-> su[4], order |-> su[5]]
KindName(k) == IF k % 8 \in {0, 2} THEN "cipher" ELSE "hash"
RowOf(c, k) == IF KindName(k) = "cipher" THEN D!CipherRow(c) ELSE D!HashRow(c)

\* consume the stage events of one call: [id, kind, row, returned id, returned status]
\* kinds 0/1 (+8 via suite id) are stage submissions and must be the next stage the job owes, on the
\* row the specification computes; kinds 2/3 are flush dispatches on behalf of job `id' and must use
\* that job's own row
RECURSIVE ApplyStages(_, _, _, _)
ApplyStages(p, su, st, i) ==
    IF i > Len(st) THEN [ok |-> TRUE, p |-> p]
    ELSE LET e == st[i] id == e[1] k == e[2] row == e[3] IN
         IF id \notin DOMAIN su THEN [ok |-> FALSE, p |-> p]
         ELSE IF row # RowOf(su[id], k) THEN [ok |-> FALSE, p |-> p]
         ELSE IF k % 8 > 1 THEN ApplyStages(p, su, st, i + 1)
         \* dedicated AEAD pairings: the cipher row is owed exactly once; whether (and when) the
         \* separate hash row is visited is the implementation's choice (one-pass kernels)
         ELSE IF D!PartnerHash(su[id].mode) # 0 /\ KindName(k) = "hash" THEN ApplyStages(p, su, st, i + 1)
         ELSE IF p[id] = <<>> \/ Head(p[id]) # <<KindName(k), row>> THEN [ok |-> FALSE, p |-> p]
         ELSE ApplyStages([p EXCEPT ![id] = Tail(@)], su, st, i + 1)

\* a handed-back completed job owes nothing (one-pass AEADs may skip the separate hash row)
Settled(c, rest) == rest = <<>>

RestrictTo(f, S) == [x \in S |-> f[x]]

\* new = sequence of <<id, suite>> accepted in this call ; t = event
NewSuite(new, id) == LET i == CHOOSE i \in 1 .. Len(new) : new[i][1] = id IN CellOfSuite(new[i][2])

StageStep(t, new) ==
    IF ~Has("stage") THEN UNCHANGED <<suiteOf, plan>>
    ELSE LET newIds == { new[i][1] : i \in 1 .. Len(new) }
             su1 == [id \in DOMAIN suiteOf \cup newIds |->
                        IF id \in newIds THEN NewSuite(new, id) ELSE suiteOf[id]]
             p1 == [id \in DOMAIN plan \cup newIds |->
                        IF id \in newIds
                        THEN (IF D!PartnerHash(su1[id].mode) # 0
                              THEN << <<"cipher", D!CipherRow(su1[id])>> >> ELSE D!StagePlan(su1[id]))
                        ELSE plan[id]]
             r == ApplyStages(p1, su1, t.stages, 1)
             gone == { t.ret[i] : i \in 1 .. Len(t.ret) }
         IN /\ r.ok
            /\ \A i \in 1 .. Len(t.ret) :
                  (t.rst[i] = 3 /\ t.ret[i] \in DOMAIN su1) => Settled(su1[t.ret[i]], r.p[t.ret[i]])
            /\ suiteOf' = RestrictTo(su1, DOMAIN su1 \ gone)
            /\ plan' = RestrictTo(r.p, DOMAIN r.p \ gone)

TraceInit ==
    /\ l = 1
    /\ next = [m \in Mgr |-> 0]      \* the first Reset event supplies the real value (must precede
                                      \* Init so that its `next \in ...' is a test, not an enumeration)
    /\ Init
    /\ suiteOf = <<>> /\ plan = <<>> /\ cfail = {}

\* a new execution starts on a freshly allocated and initialised manager
TReset ==
    /\ IsEvent("Reset")
    /\ LET t == Tr[l] m == M(t) IN
       /\ InitMgr(m, t.next, 0)
       /\ suiteOf' = <<>> /\ plan' = <<>> /\ cfail' = { x \in cfail : x[1] # m }

TGetNextJob ==
    /\ IsEvent("GetNextJob")
    /\ LET t == Tr[l] m == M(t) IN
       /\ GetNextJob(m)
       /\ t.slot = next[m]
       /\ t.clash = 0
       /\ Has("errno") => (errno'[m] = t.errno /\ gerrno' = t.gerrno)
       /\ Has("abi") => t.abi = 0
       /\ earliest[m] = t.earliest /\ next[m] = t.next
       /\ UNCHANGED <<suiteOf, plan, cfail>>

TSubmitJob ==
    /\ IsEvent("SubmitJob")
    /\ LET t == Tr[l] m == M(t) IN
       /\ t.id = nextId[m]
       /\ t.slot = next[m]
       /\ SubmitJob(m, t.valid = 1, t.chk = 1, t.experr, ToSet(t.done))
       /\ Observed(t, m)
       /\ StageStep(t, IF Has("stage") /\ t.valid = 1 THEN << <<t.id, t.suite>> >> ELSE <<>>)

TFlushJob ==
    /\ IsEvent("FlushJob")
    /\ LET t == Tr[l] m == M(t) IN
       /\ FlushJob(m, ToSet(t.done))
       /\ Observed(t, m)
       /\ StageStep(t, <<>>)

TGetCompletedJob ==
    /\ IsEvent("GetCompletedJob")
    /\ LET t == Tr[l] m == M(t) IN
       /\ t.done = <<>>
       /\ GetCompletedJob(m)
       /\ Observed(t, m)
       /\ StageStep(t, <<>>)

TQueueSize ==
    /\ IsEvent("QueueSize")
    /\ LET t == Tr[l] m == M(t) IN
       /\ t.done = <<>>
       /\ QueueSize(m)
       /\ t.q = QSize(m)
       /\ UNCHANGED <<suiteOf, plan, cfail>>
       /\ earliest'[m] = t.earliest /\ next'[m] = t.next
       /\ Has("errno") => (errno'[m] = t.errno /\ gerrno' = t.gerrno)
       /\ Has("abi") => t.abi = 0

\* a failing manager-level call (NULL burst array) issued while a job is being filled in: error code IMB_ERR_NULL_BURST,
\* nothing handed out or back, ring untouched; the submit that follows must reset the code (TSubmitJob / Observed)
TBadCall ==
    /\ IsEvent("BadCall")
    /\ LET t == Tr[l] m == M(t) IN
       /\ t.done = <<>> /\ t.r = 0
       /\ BadCall(m, 2048)
       /\ UNCHANGED <<suiteOf, plan, cfail>>
       /\ earliest'[m] = t.earliest /\ next'[m] = t.next
       /\ Has("errno") => (errno'[m] = t.errno /\ gerrno' = t.gerrno)
       /\ Has("abi") => t.abi = 0

TGetNextBurst ==
    /\ IsEvent("GetNextBurst")
    /\ LET t == Tr[l] m == M(t) IN
       /\ t.done = <<>>
       /\ GetNextBurst(m, t.n)
       /\ last'.slots = t.slots
       /\ t.clash = 0
       /\ UNCHANGED <<suiteOf, plan, cfail>>
       /\ earliest'[m] = t.earliest /\ next'[m] = t.next
       /\ Has("errno") => (errno'[m] = t.errno /\ gerrno' = t.gerrno)
       /\ Has("abi") => t.abi = 0

TSubmitBurst ==
    /\ IsEvent("SubmitBurst")
    /\ LET t == Tr[l] m == M(t) k == Len(t.ids) IN
       /\ \A i \in 1 .. k : t.ids[i] = nextId[m] + i - 1
       /\ t.slots = SubSeq(offered[m], 1, k)
       /\ IF t.valid = 1
          THEN /\ SubmitBurst(m, k, t.chk = 1, 0, 0, ToSet(t.done))
               /\ t.rejected = 0
          ELSE /\ \E bad \in 1 .. k : SubmitBurst(m, k, TRUE, bad, t.experr, ToSet(t.done))
               /\ t.rejected = 1
               /\ Has("mem") => t.touched = 0   \* a refused burst leaves every caller buffer alone
               /\ t.offender_st = 4
       /\ t.nret = Len(t.ret)
       /\ Observed(t, m)
       /\ StageStep(t, IF Has("stage") /\ t.valid = 1 /\ t.rejected = 0
                        THEN [i \in 1 .. k |-> <<t.ids[i], t.suites[i]>>] ELSE <<>>)

TFlushBurst ==
    /\ IsEvent("FlushBurst")
    /\ LET t == Tr[l] m == M(t) IN
       /\ FlushBurst(m, t.max, ToSet(t.done))
       /\ t.nret = Len(t.ret)
       /\ Observed(t, m)
       /\ StageStep(t, <<>>)

\* end of an execution: everything submitted came back, guard bytes intact
TEnd ==
    /\ IsEvent("End")
    /\ LET t == Tr[l] m == M(t) IN
       /\ nsub[m] = t.nsub
       /\ nret[m] = t.nret
       /\ t.nsub = t.nret
       /\ QSize(m) = 0
       /\ t.abandoned_touched = 0               \* no residue: buffers of dropped jobs are never written again
       /\ Has("mem") => t.canary = 0
       /\ Has("abi") => t.abi_viol = 0
    /\ UNCHANGED <<vars, suiteOf, plan, cfail>>

\* C15: init_mb_mgr_*() on a manager in any state, possibly with jobs in flight
TReinit ==
    /\ IsEvent("Reinit")
    /\ LET t == Tr[l] m == M(t) IN
       /\ InitMgr(m, t.next, 0)
       /\ suiteOf' = <<>> /\ plan' = <<>> /\ cfail' = { x \in cfail : x[1] # m }
       /\ t.earliest = -1                       \* the empty state ...
       /\ t.qsz = 0 /\ t.flush_null = 1 /\ t.getc_null = 1   \* ... nothing to flush or collect
       /\ t.errno = 0
       /\ t.arch = t.exp_arch /\ t.arch_type = t.exp_type      \* and it now is the requested variant
       /\ Has("abi") => t.abi = 0

\* C16: crash + imb_set_pointers_mb_mgr(reset = 0) in the same process: nothing observable changes
TReattach ==
    /\ IsEvent("Reattach")
    /\ LET t == Tr[l] m == M(t) IN
       /\ Reattach(m)
       /\ t.same_ptr = 1 /\ t.done = <<>>
       /\ t.stale_ptrs = 0                      \* every function / out-of-order pointer was refreshed by the call
       /\ earliest'[m] = t.earliest /\ next'[m] = t.next /\ t.errno = 0
       /\ UNCHANGED <<suiteOf, plan, cfail>>

\* C16: a forked process re-attached to the (copy of the) manager, flushed and verified every in-flight
\* job (order, completion, run-alone result) and found the manager usable: child_rc = 0
TForkReattach ==
    /\ IsEvent("ForkReattach")
    /\ LET t == Tr[l] m == M(t) IN
       /\ t.child_rc = 0
       /\ t.inflight = QSize(m)
    /\ UNCHANGED <<vars, suiteOf, plan, cfail>>

TFreshTwin == IsEvent("FreshTwin") /\ UNCHANGED <<vars, suiteOf, plan, cfail>>

TraceNext ==
    \/ TReinit \/ TReattach \/ TForkReattach \/ TFreshTwin
    \/ TReset \/ TGetNextJob \/ TSubmitJob \/ TFlushJob \/ TGetCompletedJob \/ TQueueSize
    \/ TGetNextBurst \/ TSubmitBurst \/ TFlushBurst \/ TBadCall \/ TEnd

TraceSpec == TraceInit /\ [][TraceNext]_tvars

\* the search is a chain: one state per consumed line plus the initial state
TraceAccepted ==
    LET d == TLCGet("stats").diameter IN
    IF d - 1 = Len(Tr) THEN TRUE
    ELSE /\ PrintT(<<"TRACE_REJECTED_AT_LINE", d, "OF", Len(Tr)>>)
         /\ FALSE
=============================================================================
