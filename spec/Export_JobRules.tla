-------------------------- MODULE Export_JobRules --------------------------
(* Exports the constraint catalogue for the suites listed in $KINDS (written by `imbdrv kinds`) as
   one ndjson line per rule into $RULES_OUT: one implementation test per model case. *)
EXTENDS JobRules, Json, IOUtils, TLC, SequencesExt
Kinds == ndJsonDeserialize(IOEnv.KINDS)
SuiteOfKind(k) == [mode |-> k.mode, klen |-> k.klen, dir |-> k.dir, hash |-> k.hash]
RulesOfKind(k) ==
    LET rs == SetToSeq(Rules(SuiteOfKind(k)))
    IN [i \in 1 .. Len(rs) |-> [kind |-> k.kind, field |-> rs[i].field, cls |-> rs[i].cls, err |-> rs[i].err]]
SglName(mode, st) == (IF mode = GCM_SGL THEN "GCM_SGL/" ELSE "CHAPOLY_SGL/") \o st
SglSeq(mode, st) ==
    LET rs == SetToSeq(SglRules(mode, st))
    IN [i \in 1 .. Len(rs) |-> [kind |-> SglName(mode, st), field |-> rs[i].field, cls |-> rs[i].cls, err |-> rs[i].err]]
SglAll == FlattenSeq([i \in 1 .. 8 |->
             SglSeq(IF i <= 4 THEN GCM_SGL ELSE CHAPOLY_SGL,
                    CASE i % 4 = 1 -> "init" [] i % 4 = 2 -> "update" [] i % 4 = 3 -> "complete" [] OTHER -> "all")])
AllRules == FlattenSeq([i \in 1 .. Len(Kinds) |-> RulesOfKind(Kinds[i])]) \o SglAll
ASSUME RulesWellFormed({ SuiteOfKind(Kinds[i]) : i \in 1 .. Len(Kinds) })
ASSUME ndJsonSerialize(IOEnv.RULES_OUT, AllRules)
ASSUME PrintT(<<"RULES_EXPORTED", Len(AllRules), "SUITES", Len(Kinds)>>)
VARIABLE x
Init == x = 0
Next == x' = x
Spec == Init /\ [][Next]_x
=============================================================================
