------------------------------ MODULE Dispatch ------------------------------
(***************************************************************************)
(* Suite-level parameter rules and table dispatch of intel-ipsec-mb        *)
(* (C06, and the suite part of C12).                                       *)
(*                                                                         *)
(* A cell is [mode, klen, dir, hash, order].  SuiteOK(c) says whether the  *)
(* documented rules (README Table 3, field documentation of IMB_JOB,       *)
(* is_job_invalid_light) permit the combination; SuiteErr(c) is the error  *)
(* the documentation-order of checks yields; CipherRow / HashRow are the   *)
(* rows of the four dispatch tables a permitted cell must be sent to       *)
(* (calc_cipher_tab_index(), tab_submit_hash[hash_alg]); StagePlan(c) is   *)
(* the sequence of stage submissions the stage machine                     *)
(* (submit_new_job / RESUBMIT_JOB) must perform.                           *)
(***************************************************************************)
EXTENDS Naturals, Integers, Sequences, FiniteSets

\* ---- enums (values of intel-ipsec-mb.h) ----
CBC == 1    CNTR == 2   CNULL == 3  DOCSIS_SEC == 4   GCM == 5   CCUSTOM == 6   DES == 7
DOCSIS_DES == 8   CCM == 9   DES3 == 10   PON == 11   ECB == 12   CNTR_BITLEN == 13   ZUC_EEA3 == 14
SNOW3G_UEA2 == 15   KASUMI_UEA1 == 16   CBCS == 17   CHACHA20 == 18   CHAPOLY == 19   CHAPOLY_SGL == 20
SNOW_V == 21   SNOW_V_AEAD == 22   GCM_SGL == 23   SM4_ECB == 24   SM4_CBC == 25   CFB == 26
SM4_CNTR == 27   SM4_GCM == 28
CipherNum == 29

HMAC_SHA1 == 1   HMAC_SHA224 == 2   HMAC_SHA256 == 3   HMAC_SHA384 == 4   HMAC_SHA512 == 5   XCBC == 6
HMAC_MD5 == 7   HNULL == 8   AES_GMAC == 9   HCUSTOM == 10   AES_CCM == 11   AES_CMAC == 12   SHA1 == 13
SHA224 == 14   SHA256 == 15   SHA384 == 16   SHA512 == 17   CMAC_BITLEN == 18   PON_CRC_BIP == 19
ZUC_EIA3 == 20   DOCSIS_CRC32 == 21   SNOW3G_UIA2 == 22   KASUMI_UIA1 == 23   GMAC128 == 24
GMAC192 == 25   GMAC256 == 26   CMAC256 == 27   POLY1305 == 28   H_CHAPOLY == 29   H_CHAPOLY_SGL == 30
ZUC256_EIA3 == 31   H_SNOW_V_AEAD == 32   H_GCM_SGL == 33   CRC_FIRST == 34   CRC_LAST == 45
GHASH == 46   SM3 == 47   HMAC_SM3 == 48   H_SM4_GCM == 49
HashNum == 50

ENC == 1   DEC == 2
CIPHER_HASH == 1   HASH_CIPHER == 2

\* error codes
ERR_KEY_LEN == 2011   ERR_CIPH_MODE == 2016   ERR_HASH_ALGO == 2017   ERR_CHAIN_ORDER == 2015
ERR_CIPH_DIR == 2043

\* the full finite product the property quantifies over (28 x 4 x 2 x 49 x 2 = 21 952 cells)
Modes == 1 .. 28
KeyLens == {8, 16, 24, 32}
Dirs == {ENC, DEC}
Hashes == 1 .. 49
Orders == {CIPHER_HASH, HASH_CIPHER}
Cells == [mode : Modes, klen : KeyLens, dir : Dirs, hash : Hashes, order : Orders]

\* ---- key sizes each mode is documented to take ----
KeyOK(mode, klen) ==
    CASE mode \in {CBC, CNTR, ECB, CNTR_BITLEN, CFB, GCM, GCM_SGL} -> klen \in {16, 24, 32}
      [] mode = CBCS -> klen = 16
      [] mode \in {DOCSIS_SEC, CCM, ZUC_EEA3} -> klen \in {16, 32}
      [] mode \in {DES, DOCSIS_DES} -> klen = 8
      [] mode = DES3 -> klen = 24
      [] mode \in {SNOW3G_UEA2, KASUMI_UEA1, SM4_ECB, SM4_CBC, SM4_CNTR, SM4_GCM} -> klen = 16
      [] mode \in {CHACHA20, CHAPOLY, CHAPOLY_SGL, SNOW_V, SNOW_V_AEAD} -> klen = 32
      [] mode \in {CNULL, CCUSTOM, PON} -> TRUE      \* key length not examined at suite level
      [] OTHER -> FALSE

\* ---- dedicated pairings (README Table 3) ----
\* the hash a cipher mode insists on, 0 = any generic hash
PartnerHash(mode) ==
    CASE mode = GCM -> AES_GMAC
      [] mode = GCM_SGL -> H_GCM_SGL
      [] mode = SM4_GCM -> H_SM4_GCM
      [] mode = CCM -> AES_CCM
      [] mode = PON -> PON_CRC_BIP
      [] mode = CHAPOLY -> H_CHAPOLY
      [] mode = CHAPOLY_SGL -> H_CHAPOLY_SGL
      [] mode = SNOW_V_AEAD -> H_SNOW_V_AEAD
      [] OTHER -> 0

\* the cipher a hash insists on, 0 = any generic cipher
PartnerCipher(hash) ==
    CASE hash = AES_GMAC -> GCM
      [] hash = H_GCM_SGL -> GCM_SGL
      [] hash = H_SM4_GCM -> SM4_GCM
      [] hash = AES_CCM -> CCM
      [] hash = PON_CRC_BIP -> PON
      [] hash = DOCSIS_CRC32 -> DOCSIS_SEC
      [] hash = H_CHAPOLY -> CHAPOLY
      [] hash = H_CHAPOLY_SGL -> CHAPOLY_SGL
      [] hash = H_SNOW_V_AEAD -> SNOW_V_AEAD
      [] OTHER -> 0

\* suite-level verdict in the order the checks are documented to run: cipher side first
SuiteErr(c) ==
    IF ~KeyOK(c.mode, c.klen) THEN ERR_KEY_LEN
    ELSE IF PartnerHash(c.mode) # 0 /\ c.hash # PartnerHash(c.mode) THEN ERR_HASH_ALGO
    ELSE IF PartnerCipher(c.hash) # 0 /\ c.mode # PartnerCipher(c.hash) THEN ERR_CIPH_MODE
    ELSE 0

SuiteOK(c) == SuiteErr(c) = 0

\* job-level rule that depends on chain order only (DOCSIS with CRC32)
OrderOK(c) ==
    c.hash = DOCSIS_CRC32 =>
        (c.dir = ENC /\ c.order = HASH_CIPHER) \/ (c.dir = DEC /\ c.order = CIPHER_HASH)

\* ---- dispatch ----
KeyClass(klen) == ((klen - 1) \div 8) % 4
CipherRow(c) == c.mode * 4 + KeyClass(c.klen) + (IF c.dir = ENC THEN 128 ELSE 0)
HashRow(c) == c.hash

\* suite identifier of a session descriptor = the two rows
SuiteId(c) == <<CipherRow(c), HashRow(c)>>

\* stage plan: sequence of <<"cipher"|"hash", row>> submissions
StagePlan(c) ==
    IF c.order = CIPHER_HASH
    THEN << <<"cipher", CipherRow(c)>>, <<"hash", HashRow(c)>> >>
    ELSE << <<"hash", HashRow(c)>>, <<"cipher", CipherRow(c)>> >>

\* The dedicated AEAD pairings may compute cipher and tag in one pass inside the cipher row (plain
\* GCM bypasses the hash table by construction, GCM-SGL and ChaCha20-Poly1305 complete both status
\* bits in their cipher routine): for them the cipher row alone is also a correct plan.
PlanOK(c, p) ==
    \/ p = StagePlan(c)
    \/ PartnerHash(c.mode) # 0 /\ p = << <<"cipher", CipherRow(c)>> >>

-----------------------------------------------------------------------------
(* Design-level checks, evaluated by TLC over the whole product (ASSUME)    *)

\* every permitted cell is sent to rows inside the tables
RowsInRange == \A c \in Cells : SuiteOK(c) => CipherRow(c) \in 0 .. 255 /\ HashRow(c) \in 1 .. 49

\* distinct (mode, key class, direction) never share a cipher row
RowInjective ==
    \A c, d \in [mode : Modes, klen : KeyLens, dir : Dirs, hash : {HNULL}, order : {CIPHER_HASH}] :
        CipherRow(c) = CipherRow(d) => (c.mode = d.mode /\ KeyClass(c.klen) = KeyClass(d.klen) /\ c.dir = d.dir)

\* descriptors that agree on (mode, klen, dir, hash) get equal suite ids and vice versa: the cipher
\* row is injective in (mode, key class, direction) (RowInjective), the key class is injective on the
\* four key lengths, and the hash row is the hash algorithm itself
KeyClassInjective == \A a, b \in KeyLens : KeyClass(a) = KeyClass(b) => a = b

\* the dedicated pairings are accepted only with each other
AeadOnlyWithPartner ==
    \A c \in Cells :
        SuiteOK(c) => /\ (PartnerHash(c.mode) # 0 => c.hash = PartnerHash(c.mode))
                      /\ (PartnerCipher(c.hash) # 0 => c.mode = PartnerCipher(c.hash))

\* each stage exactly once, in the requested order
PlanShape ==
    \A c \in Cells :
        LET p == StagePlan(c) IN
        /\ Len(p) = 2
        /\ { p[i][1] : i \in 1 .. 2 } = {"cipher", "hash"}
        /\ (c.order = CIPHER_HASH) => p[1][1] = "cipher"
        /\ (c.order = HASH_CIPHER) => p[1][1] = "hash"

NumOK == Cardinality({c \in Cells : SuiteOK(c)})
=============================================================================
