--------------------------- MODULE Trace_SelfTest ---------------------------
(* Validates the recorded self-test fault enumeration (harness/drv_selftest.c) against SelfTest. *)
EXTENDS Naturals, Sequences, FiniteSets, Json, IOUtils, TLC

Tr == ndJsonDeserialize(IOEnv.TRACE)

\* the test list is learned from the first fault-free run of the trace (adding a KAT is not an alarm)
Learn(events) ==
    LET starts == SelectSeq(events, LAMBDA e : e[1] = "START")
        idx(k) == CHOOSE p \in 1 .. Len(events) :
                      /\ events[p][1] = "START"
                      /\ Cardinality({q \in 1 .. p : events[q][1] = "START"}) = k
        nxt(k) == IF k = Len(starts) THEN Len(events) + 1 ELSE idx(k + 1)
    IN [k \in 1 .. Len(starts) |->
          [type |-> starts[k][2], descr |-> starts[k][3],
           ncorrupt |-> Cardinality({q \in idx(k) .. nxt(k) - 1 : events[q][1] = "CORRUPT"})]]

LearnedTests == Learn(Tr[1].events)

ST == INSTANCE SelfTest WITH Tests <- LearnedTests, fault <- {}, i <- 1, phase <- "idle", ncor <- 0,
                             hit <- FALSE, ret <- TRUE, stream <- <<>>, passbit <- FALSE, errcode <- 0

ToSetS(s) == { s[k] : k \in 1 .. Len(s) }

\* documented algorithm families (README "Self-Test") and the announcements that count for each
Documented == <<
  {"AES128-GCM", "AES192-GCM", "AES256-GCM"}, {"AES128-CCM", "AES256-CCM"},
  {"AES128-CBC", "AES192-CBC", "AES256-CBC"}, {"AES128-CTR", "AES192-CTR", "AES256-CTR"},
  {"AES128-ECB", "AES192-ECB", "AES256-ECB"}, {"AES128-CFB", "AES192-CFB", "AES256-CFB"},
  {"TDES-EDE-CBC"}, {"AES128-GMAC", "AES192-GMAC", "AES256-GMAC"}, {"AES128-CMAC", "AES256-CMAC"},
  {"SHA1"}, {"SHA2-224", "SHA224"}, {"SHA2-256", "SHA256"}, {"SHA2-384", "SHA384"}, {"SHA2-512", "SHA512"},
  {"HMAC-SHA1"}, {"HMAC-SHA2-224", "HMAC-SHA224"}, {"HMAC-SHA2-256", "HMAC-SHA256"},
  {"HMAC-SHA2-384", "HMAC-SHA384"}, {"HMAC-SHA2-512", "HMAC-SHA512"} >>

Announced == { LearnedTests[k].descr : k \in 1 .. Len(LearnedTests) }
AnnouncesAllDocumented == \A f \in 1 .. Len(Documented) : Documented[f] \cap Announced # {}

VARIABLE l

RunOK(t) ==
    LET F == ToSetS(t.fault) IN
    /\ t.crashed = 0
    /\ t.events = ST!Expected(F)              \* START . CORRUPT* . PASS|FAIL per test, FAIL exactly for F
    /\ t.st_bit = 1
    /\ t.pass_bit = (IF F = {} THEN 1 ELSE 0) \* the gate is the conjunction of all results
    /\ t.errno = (IF F = {} THEN 0 ELSE ST!ERR_SELFTEST)
    /\ t.errfield = t.errno
    /\ t.qsz = 0                              \* the self-test leaves no job behind

Init == l = 1
Next == /\ l <= Len(Tr) /\ Tr[l].e = "Run" /\ l' = l + 1
        /\ RunOK(Tr[l])
        /\ l = 1 => (Tr[1].fault = <<>> /\ AnnouncesAllDocumented /\ Len(LearnedTests) >= 19)
Spec == Init /\ [][Next]_l

TraceAccepted ==
    LET d == TLCGet("stats").diameter IN
    IF d - 1 = Len(Tr) THEN TRUE
    ELSE /\ PrintT(<<"TRACE_REJECTED_AT_LINE", d, "OF", Len(Tr)>>)
         /\ FALSE
=============================================================================
