----------------------------- MODULE Trace_KeyDiff -----------------------------
(***************************************************************************)
(* C13 - key-dependence differential (harness/drv_keydiff.c).  One         *)
(* schedule is executed twice on a manager at the same address, with the   *)
(* same messages, IVs, lengths and buffer addresses and with different     *)
(* keys.  When every job has been handed back, whatever still differs      *)
(* between the two runs in the manager's storage, in the registers or in   *)
(* the dead stack is derived from the keys.  Spans that are (part of) a    *)
(* public output of the jobs are dropped by the driver.  What remains      *)
(* must lie in one of the out-of-order managers of Benign: there the       *)
(* leftover is the output of a keyed primitive, not key material -         *)
(*   aes*_ooo, docsis*_sec_ooo, aes_cfb_*_ooo, aes128_cbcs_ooo,            *)
(*   aes_xcbc_ooo : the IV / ICV chaining slot of a lane holds the last    *)
(*       cipher-text block (of a job, or of an idle lane that the flush    *)
(*       drove with copied pointers);                                      *)
(*   sha_*_ooo : digest state and buffered blocks of a message that was    *)
(*       the cipher text of the same job;                                  *)
(*   hmac_sha_224/384/512_ooo : words of the final digest state beyond     *)
(*       the truncated tag and the inner digest in the outer block.        *)
(* Everything else - the ring, the DES / CCM / CMAC / HMAC-SHA1/256/MD5    *)
(* managers and above all the stream-cipher managers (ZUC, SNOW3G), whose  *)
(* LFSR / FSM state and key stream are equivalent to the key - must be     *)
(* identical in both runs.                                                 *)
(***************************************************************************)
EXTENDS Naturals, Sequences, FiniteSets, Json, IOUtils, TLC
Tr == ndJsonDeserialize(IOEnv.TRACE)
Benign == {"aes128_ooo", "aes192_ooo", "aes256_ooo", "docsis128_sec_ooo", "docsis128_crc32_sec_ooo", "docsis256_sec_ooo",
           "docsis256_crc32_sec_ooo", "aes_cfb_128_ooo", "aes_cfb_192_ooo", "aes_cfb_256_ooo", "aes128_cbcs_ooo", "aes_xcbc_ooo",
           "sha_1_ooo", "sha_224_ooo", "sha_256_ooo", "sha_384_ooo", "sha_512_ooo",
           "hmac_sha_224_ooo", "hmac_sha_384_ooo", "hmac_sha_512_ooo"}
VARIABLES l, kinds
vars == <<l, kinds>>
Init == l = 1 /\ kinds = {}
One == /\ l <= Len(Tr) /\ Tr[l].e = "KeyDiff"
       /\ LET t == Tr[l] IN
          /\ t.ra = 0 /\ t.rb = 0                                  \* both runs completed (no fault, no hang)
          /\ t.vec = 0 /\ t.gpr = 0 /\ t.stk = 0                   \* registers and dead stack do not depend on the keys
          /\ \A i \in 1 .. Len(t.mgrs) : t.mgrs[i] \in Benign      \* nor does the manager, outside the benign chaining slots
          /\ kinds' = kinds \cup {t.kind}
       /\ l' = l + 1
End == /\ l = Len(Tr) /\ Tr[l].e = "KeyDiffEnd" /\ Tr[l].n = l - 1 /\ Cardinality(kinds) >= 100
       /\ l' = l + 1 /\ UNCHANGED kinds
Next == One \/ End
Spec == Init /\ [][Next]_vars
TraceAccepted ==
    LET d == TLCGet("stats").diameter IN
    IF d - 1 = Len(Tr) THEN TRUE
    ELSE /\ PrintT(<<"TRACE_REJECTED_AT_LINE", d, "OF", Len(Tr)>>)
         /\ FALSE
=============================================================================
