------------------------------ MODULE JobRules ------------------------------
(***************************************************************************)
(* The constraint catalogue of intel-ipsec-mb job descriptors (C12).       *)
(*                                                                         *)
(* For a suite s = [mode, klen, dir, hash] and a valid baseline job of     *)
(* that suite, Rules(s) is the set of single-field violations              *)
(*     [field, cls, err]                                                   *)
(* the documentation defines (field documentation of IMB_JOB and README    *)
(* Table 3; cross-read against is_job_invalid()): setting `field' to the   *)
(* value class `cls' must make the library hand the job back with          *)
(* IMB_STATUS_INVALID_ARGS and error code `err', untouched.  Conversely    *)
(* the unmodified baseline must be accepted.  The harness applies each     *)
(* rule by name (harness/drv_invalid.c), so every element of Rules(s) is   *)
(* one implementation test.                                                *)
(***************************************************************************)
EXTENDS Dispatch

\* error codes (IMB_ERR_*)
E_NULL_SRC == 2002   E_NULL_DST == 2003   E_NULL_KEY == 2004   E_NULL_IV == 2005   E_NULL_AUTH == 2006
E_NULL_AAD == 2007   E_CIPH_LEN == 2008   E_AUTH_LEN == 2009   E_IV_LEN == 2010   E_KEY_LEN == 2011
E_TAG_LEN == 2012    E_AAD_LEN == 2013    E_SRC_OFFSET == 2014 E_CHAIN_ORDER == 2015
E_CIPH_MODE == 2016  E_HASH_ALGO == 2017  E_NULL_AUTH_KEY == 2018   E_NULL_SGL_CTX == 2019
E_NULL_NEXT_IV == 2020   E_OPAD == 2038   E_IPAD == 2039   E_XCBC_K1 == 2040   E_XCBC_K2 == 2041
E_XCBC_K3 == 2042   E_CIPH_DIR == 2043   E_GHASH_INIT == 2044   E_PON_PLI == 2021
E_EINVAL == 22   E_EFAULT == 14          \* two rules answer with plain errno values

R(f, c, e) == [field |-> f, cls |-> c, err |-> e]

\* ---- cipher side ----
NeedsSrcAlways == {CBC, CBCS, ECB, CNTR, CNTR_BITLEN, DOCSIS_SEC, DES, DOCSIS_DES, DES3, ZUC_EEA3,
                   SNOW3G_UEA2, KASUMI_UEA1, CHACHA20, SM4_ECB, SM4_CBC, SM4_CNTR}
NeedsSrcIfLen  == {GCM, SM4_GCM, CCM, CHAPOLY, SNOW_V, SNOW_V_AEAD, CFB}
HasIV == Modes \ {CNULL, CCUSTOM, ECB, SM4_ECB, PON, GCM_SGL, CHAPOLY_SGL}
\* which key pointer the direction uses
UsesDecKeys(s) == s.dir = DEC /\ s.mode \in {CBC, CBCS, ECB, DOCSIS_SEC, DES, DOCSIS_DES, GCM, SM4_GCM,
                                            SM4_ECB, SM4_CBC, CFB, DES3}
UsesEncKeys(s) == s.mode \notin {CNULL, CCUSTOM} /\ (~UsesDecKeys(s) \/ s.mode = DOCSIS_SEC)
NonZeroLen == {CBC, CBCS, ECB, CNTR, CNTR_BITLEN, DES, DOCSIS_DES, DES3, ZUC_EEA3, SNOW3G_UEA2, KASUMI_UEA1,
               CHACHA20, SM4_ECB, SM4_CBC, SM4_CNTR}
Block16 == {CBC, CBCS, ECB, SM4_ECB, SM4_CBC, CFB}
Block8 == {DES, DES3}
\* modes limited to the 16-bit multi-buffer length (65534)
Max16(s) == \/ s.mode \in {ECB, DOCSIS_SEC, DES, DOCSIS_DES, DES3, CCM, SM4_CBC}
            \/ (s.mode = CBC /\ s.dir = ENC)
IvLens(s) ==
    CASE s.mode \in {CBC, CBCS, CNTR_BITLEN, DOCSIS_SEC, SNOW3G_UEA2, SNOW_V, SNOW_V_AEAD, SM4_CBC, CFB} -> {16}
      [] s.mode \in {CNTR, SM4_CNTR} -> {12, 16}
      [] s.mode \in {DES, DOCSIS_DES, DES3, KASUMI_UEA1} -> {8}
      [] s.mode \in {CHACHA20, CHAPOLY, SM4_GCM} -> {12}
      [] s.mode = ZUC_EEA3 -> IF s.klen = 16 THEN {16} ELSE {23, 25}
      [] s.mode = CCM -> 7 .. 13
      [] OTHER -> {}                      \* GCM: any non-zero length

CipherRules(s) ==
    (IF s.mode \in NeedsSrcAlways \cup NeedsSrcIfLen
     THEN {R("src", "null", E_NULL_SRC), R("dst", "null", E_NULL_DST)} ELSE {})
    \cup (IF s.mode \in HasIV THEN {R("iv", "null", E_NULL_IV)} ELSE {})
    \cup (IF UsesEncKeys(s) THEN {R("enc_keys", "null", E_NULL_KEY)} ELSE {})
    \cup (IF UsesDecKeys(s) THEN {R("dec_keys", "null", E_NULL_KEY)} ELSE {})
    \cup (IF s.mode # CNULL /\ \E k \in KeyLens : ~KeyOK(s.mode, k)
          THEN {R("key_len", "unsupported", E_KEY_LEN)} ELSE {})
    \cup (IF s.mode \in NonZeroLen THEN {R("cipher_len", "zero", E_CIPH_LEN)} ELSE {})
    \cup (IF s.mode \in Block16 \cup Block8 THEN {R("cipher_len", "unaligned", E_CIPH_LEN)} ELSE {})
    \cup (IF Max16(s) THEN {R("cipher_len", "over16", E_CIPH_LEN)} ELSE {})
    \cup (IF IvLens(s) # {} THEN {R("iv_len", "bad", E_IV_LEN)} ELSE {})
    \cup (IF s.mode \in {GCM} THEN {R("iv_len", "zero", E_IV_LEN)} ELSE {})
    \cup (IF s.mode = CBCS THEN {R("next_iv", "null", E_NULL_NEXT_IV)} ELSE {})
    \cup (IF s.mode # CNULL THEN {R("cipher_dir", "bad", E_CIPH_DIR)} ELSE {})
    \cup (IF s.mode = PON
          THEN \* XGEM frame: destination = source + cipher offset; ciphered range a multiple of 4 and at most 2^14;
               \* with a non-empty range AES-128-CTR needs key (16 bytes), 16-byte IV; PLI (payload length in the header)
               \* must not exceed the ciphered range
               {R("src", "null", E_NULL_SRC), R("dst", "null", E_NULL_DST), R("pon_dst", "elsewhere", E_EINVAL),
                R("cipher_len", "unaligned4", E_CIPH_LEN), R("cipher_len", "overpon", E_CIPH_LEN),
                R("key_len", "pon32", E_KEY_LEN), R("iv_len", "bad", E_IV_LEN), R("iv", "null", E_NULL_IV),
                R("enc_keys", "null", E_NULL_KEY), R("pon_pli", "plus1", E_PON_PLI), R("pon_pli", "plus4", E_PON_PLI)}
          ELSE {})
    \cup (IF s.mode \in {GCM, SM4_GCM, CHAPOLY, CBCS} THEN {R("cipher_len", "huge", E_CIPH_LEN)} ELSE {})   \* beyond the mode's own maximum
    \cup (IF s.mode = DES3
          THEN {R("des3_k1", "null", E_NULL_KEY), R("des3_k2", "null", E_NULL_KEY), R("des3_k3", "null", E_NULL_KEY)} ELSE {})
    \cup (IF s.mode = CCUSTOM THEN {R("cipher_func", "null", E_EFAULT)} ELSE {})   \* the only rule for a caller-supplied cipher
    \cup {R("cipher_mode", "unsupported", E_CIPH_MODE)}

\* ---- hash side ----
Hmacs == {HMAC_SHA1, HMAC_SHA224, HMAC_SHA256, HMAC_SHA384, HMAC_SHA512, HMAC_MD5}
PlainSha == {SHA1, SHA224, SHA256, SHA384, SHA512}
Crcs == CRC_FIRST .. CRC_LAST
Cmacs == {AES_CMAC, CMAC_BITLEN, CMAC256}
Gmacs == {GMAC128, GMAC192, GMAC256}
HasTag == Hashes \ {HNULL, HCUSTOM}
\* tag length fixed (or one of two values); everything else is a range
FixedTag == Hmacs \cup {XCBC} \cup PlainSha \cup Crcs \cup
            {ZUC_EIA3, ZUC256_EIA3, SNOW3G_UIA2, KASUMI_UIA1, POLY1305, H_CHAPOLY, H_SNOW_V_AEAD, DOCSIS_CRC32}
NeedsHSrc == Hmacs \cup {XCBC} \cup Cmacs \cup PlainSha \cup
             {ZUC_EIA3, ZUC256_EIA3, SNOW3G_UIA2, KASUMI_UIA1, POLY1305, SM3, HMAC_SM3}
HZeroLenBad == Hmacs \cup {HMAC_SM3, ZUC_EIA3, ZUC256_EIA3, SNOW3G_UIA2, KASUMI_UIA1}
HMax16 == Hmacs \cup {XCBC} \cup Cmacs \cup PlainSha \cup {AES_CCM, DOCSIS_CRC32}

HashRules(s) ==
    (IF s.hash \in HasTag THEN {R("tag", "null", E_NULL_AUTH)} ELSE {})
    \cup (IF s.hash \in HasTag THEN {R("tag_len", "zero", E_TAG_LEN), R("tag_len", "over", E_TAG_LEN)} ELSE {})
    \cup (IF s.hash \in FixedTag THEN {R("tag_len", "other", E_TAG_LEN)} ELSE {})
    \cup (IF s.hash = AES_CCM THEN {R("tag_len", "odd", E_TAG_LEN)} ELSE {})
    \cup (IF s.hash \in NeedsHSrc /\ s.mode = CNULL THEN {R("src", "null", E_NULL_SRC)} ELSE {})
    \cup (IF s.hash \in Crcs \cup Gmacs \cup {GHASH} /\ s.mode = CNULL THEN {R("src", "null", E_NULL_SRC)} ELSE {})
    \cup (IF s.hash \in HZeroLenBad THEN {R("hash_len", "zero", E_AUTH_LEN)} ELSE {})
    \cup (IF s.hash \in HMax16 /\ s.hash # AES_CCM /\ s.hash # DOCSIS_CRC32
          THEN {R("hash_len", "over16", E_AUTH_LEN)} ELSE {})
    \cup (IF s.hash \in Hmacs \cup {HMAC_SM3}
          THEN {R("ipad", "null", E_IPAD), R("opad", "null", E_OPAD)} ELSE {})
    \cup (IF s.hash = XCBC
          THEN {R("xcbc_k1", "null", E_XCBC_K1), R("xcbc_k2", "null", E_XCBC_K2), R("xcbc_k3", "null", E_XCBC_K3)}
          ELSE {})
    \cup (IF s.hash \in Cmacs
          THEN {R("cmac_key", "null", E_NULL_KEY), R("cmac_sk1", "null", E_NULL_KEY), R("cmac_sk2", "null", E_NULL_KEY)}
          ELSE {})
    \cup (IF s.hash \in Gmacs
          THEN {R("gmac_key", "null", E_NULL_AUTH_KEY), R("gmac_iv", "null", E_NULL_IV), R("gmac_iv_len", "zero", E_IV_LEN)}
          ELSE {})
    \cup (IF s.hash = GHASH
          THEN {R("ghash_key", "null", E_NULL_AUTH_KEY), R("ghash_init", "null", E_GHASH_INIT)} ELSE {})
    \cup (IF s.hash = POLY1305 THEN {R("poly_key", "null", E_NULL_AUTH_KEY)} ELSE {})
    \cup (IF s.hash \in {ZUC_EIA3, ZUC256_EIA3}
          THEN {R("zuc_akey", "null", E_NULL_KEY), R("zuc_aiv", "null", E_NULL_IV)} ELSE {})
    \cup (IF s.hash = SNOW3G_UIA2
          THEN {R("snow3g_akey", "null", E_NULL_KEY), R("snow3g_aiv", "null", E_NULL_IV)} ELSE {})
    \cup (IF s.hash = KASUMI_UIA1 THEN {R("kasumi_akey", "null", E_NULL_KEY)} ELSE {})
    \cup (IF s.hash \in {AES_GMAC, AES_CCM, H_CHAPOLY, H_SNOW_V_AEAD, H_SM4_GCM}
          THEN {R("aad", "null", E_NULL_AAD)} ELSE {})
    \cup (IF s.hash = AES_CCM
          THEN {R("aad_len", "over", E_AAD_LEN), R("ccm_hash_len", "differs", E_CIPH_LEN), R("ccm_hash_len", "over16", E_AUTH_LEN),
                R("ccm_hash_off", "differs", E_SRC_OFFSET)}
          ELSE {})
    \cup (IF s.hash = DOCSIS_CRC32
          THEN \* Ethernet PDU over DOCSIS (both ranges non-empty): ciphered range + 8 <= hashed range, cipher offset >= hash
               \* offset + 12, hashed range within the 16-bit multi-buffer limit
               {R("chain_order", "flipped", E_CHAIN_ORDER), R("docsis_crc", "cipher_too_long", E_CIPH_LEN),
                R("docsis_crc", "offset_below", E_SRC_OFFSET), R("docsis_crc", "hash_over16", E_AUTH_LEN)}
          ELSE {})
    \cup (IF s.hash = PON_CRC_BIP
          THEN {R("hash_len", "unaligned4", E_AUTH_LEN), R("hash_len", "lt8", E_AUTH_LEN), R("hash_len", "overpon", E_AUTH_LEN),
                R("tag_len", "other", E_TAG_LEN)}
          ELSE {})
    \cup (IF s.hash = HCUSTOM THEN {R("hash_func", "null", E_EFAULT)} ELSE {})
    \cup {R("hash_alg", "unsupported", E_HASH_ALGO)}

Rules(s) == CipherRules(s) \cup HashRules(s)

\* ---- scatter-gather suites: GCM_SGL + GCM_SGL hash, CHACHA20_POLY1305_SGL + its hash ----
\* a job carries sgl_state INIT / UPDATE / COMPLETE (one segment in src/dst) or ALL (segment array); the baseline of
\* UPDATE and COMPLETE is preceded by an accepted INIT on the same context
E_NULL_SGL == 2019   E_SGL_STATE == 2053
SglModes == {GCM_SGL, CHAPOLY_SGL}
SglStates == {"init", "update", "complete", "all"}
SglRules(mode, st) ==
    {R("hash_alg", "foreign", E_HASH_ALGO), R("keys", "null", E_NULL_KEY), R("key_len", "bad", E_KEY_LEN),
     R("iv", "null", E_NULL_IV), R("iv_len", IF mode = GCM_SGL THEN "zero" ELSE "bad", E_IV_LEN),
     R("sgl_ctx", "null", E_NULL_SGL), R("sgl_state", "bad", E_SGL_STATE)}
    \cup (IF st \in {"update", "complete"} \/ (st = "init" /\ mode = CHAPOLY_SGL)
          THEN {R("src", "null", E_NULL_SRC), R("dst", "null", E_NULL_DST), R("cipher_len", "huge", E_CIPH_LEN)} ELSE {})
    \cup (IF st = "all"
          THEN {R("seg_in", "null", E_NULL_SRC), R("seg_out", "null", E_NULL_DST), R("seg_len", "huge", E_CIPH_LEN)} ELSE {})
    \cup (IF st \in {"complete", "all"} \/ mode = CHAPOLY_SGL
          THEN {R("tag", "null", E_NULL_AUTH), R("tag_len", IF mode = GCM_SGL THEN "zero" ELSE "other", E_TAG_LEN)} ELSE {})
    \cup (IF mode = GCM_SGL /\ st \in {"complete", "all"} THEN {R("tag_len", "over", E_TAG_LEN)} ELSE {})
    \cup (IF st \in {"init", "all"} \/ mode = CHAPOLY_SGL THEN {R("aad", "null", E_NULL_AAD)} ELSE {})

\* the error codes the catalogue may mention are documented ones
DocumentedCodes == (2001 .. 2053) \cup {E_EINVAL, E_EFAULT}
RulesWellFormed(S) ==
    \A s \in S : \A r \in Rules(s) : r.err \in DocumentedCodes
=============================================================================
