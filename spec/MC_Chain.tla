------------------------------ MODULE MC_Chain ------------------------------
EXTENDS Chain
MCU == [c |-> [fam |-> "simple", L |-> 2, blk |-> 1, pf |-> "", fl |-> 1, ss |-> FALSE], h |-> [fam |-> "hmac", L |-> 2, blk |-> 64, pf |-> "", fl |-> 1, ss |-> FALSE]]
MCSuites == { [cu |-> "c", hu |-> "h", hc |-> FALSE],       \* AES-CBC encrypt + HMAC, cipher then hash
              [cu |-> "sync", hu |-> "h", hc |-> TRUE],     \* AES-CBC decrypt + HMAC, hash then cipher
              [cu |-> "c", hu |-> "sync", hc |-> FALSE],    \* cipher only
              [cu |-> "c", hu |-> "h", hc |-> TRUE],        \* hash then (lane) cipher
              [cu |-> "sync", hu |-> "sync", hc |-> FALSE] }
\* suites with a caller-supplied (CUSTOM) stage next to an asynchronous one
MCCustomSuites == { [cu |-> "c", hu |-> "custom", hc |-> TRUE],      \* custom hash, then lane cipher
                    [cu |-> "custom", hu |-> "h", hc |-> FALSE],     \* custom cipher, then lane hash
                    [cu |-> "c", hu |-> "custom", hc |-> FALSE],
                    [cu |-> "custom", hu |-> "custom", hc |-> FALSE],
                    [cu |-> "c", hu |-> "h", hc |-> FALSE] }
MCLenPairs == { <<16, 20>>, <<48, 100>> }
=============================================================================
