------------------------------ MODULE SelfTest ------------------------------
(***************************************************************************)
(* Power-up self-test of intel-ipsec-mb (C20): the known-answer tests run  *)
(* by every init_mb_mgr_*() call, the call-back protocol                   *)
(* START(type, descr) . CORRUPT* . PASS|FAIL per test, and the gate:       *)
(* initialisation reports success (SELF_TEST_PASS bit, no error) iff every *)
(* test passed.  Anchors: lib/x86_64/self_test.c (self_test_ciphers /      *)
(* _hashes / _aead, make_callback, self_test), init_mb_mgr_*().            *)
(*                                                                         *)
(* Tests is the ordered list of KATs (learned from the fault-free run when *)
(* validating traces, a small abstract list when model checking); Fault    *)
(* is the set of test positions whose input the call-back corrupts.        *)
(***************************************************************************)
EXTENDS Naturals, Sequences, FiniteSets

CONSTANTS Tests       \* sequence of [type : STRING, descr : STRING, ncorrupt : Nat]

ERR_SELFTEST == 2051

VARIABLES
    fault,      \* SUBSET 1..Len(Tests) chosen by the environment (the call-back)
    i,          \* index of the test being run (Len(Tests)+1 = finished)
    phase,      \* "idle" | "started" | "corrupting" | "done"
    ncor,       \* corrupt call-backs made for the current test
    hit,        \* the current test's input was corrupted
    ret,        \* the conjunction accumulated so far (self_test_exec's ret)
    stream,     \* call-back events emitted so far
    passbit, errcode

vars == <<fault, i, phase, ncor, hit, ret, stream, passbit, errcode>>

NT == Len(Tests)

Init ==
    /\ fault \in SUBSET (1 .. NT)
    /\ i = 1 /\ phase = "idle" /\ ncor = 0 /\ hit = FALSE /\ ret = TRUE
    /\ stream = <<>> /\ passbit = FALSE /\ errcode = 0

Start ==
    /\ phase = "idle" /\ i <= NT
    /\ stream' = Append(stream, <<"START", Tests[i].type, Tests[i].descr>>)
    /\ phase' = "started" /\ ncor' = 0 /\ hit' = FALSE
    /\ UNCHANGED <<fault, i, ret, passbit, errcode>>

\* the test asks the call-back whether to corrupt its input (once per encrypt/compute direction)
Corrupt ==
    /\ phase = "started" /\ ncor < Tests[i].ncorrupt
    /\ stream' = Append(stream, <<"CORRUPT", "", "">>)
    /\ ncor' = ncor + 1
    /\ hit' = (hit \/ i \in fault)
    /\ UNCHANGED <<fault, i, phase, ret, passbit, errcode>>

\* known-answer comparison: fails exactly when the input was corrupted
Verdict ==
    /\ phase = "started" /\ ncor = Tests[i].ncorrupt
    /\ stream' = Append(stream, <<IF hit THEN "FAIL" ELSE "PASS", "", "">>)
    /\ ret' = (ret /\ ~hit)
    /\ i' = i + 1 /\ phase' = "idle"
    /\ UNCHANGED <<fault, ncor, hit, passbit, errcode>>

\* self_test() / init: the gate
Finish ==
    /\ phase = "idle" /\ i = NT + 1
    /\ passbit' = ret
    /\ errcode' = IF ret THEN 0 ELSE ERR_SELFTEST
    /\ phase' = "done"
    /\ UNCHANGED <<fault, i, ncor, hit, ret, stream>>

Next == Start \/ Corrupt \/ Verdict \/ Finish
Spec == Init /\ [][Next]_vars /\ WF_vars(Next)

-----------------------------------------------------------------------------
\* the verdict events in the stream, in order
Verdicts == SelectSeq(stream, LAMBDA e : e[1] \in {"PASS", "FAIL"})

\* the failure call-back is made for exactly the corrupted tests
FailExactlyFaulted ==
    \A k \in 1 .. Len(Verdicts) : (Verdicts[k][1] = "FAIL") <=> (k \in fault)

\* success is reported iff every test passed, i.e. iff nothing was corrupted
GateIsConjunction ==
    phase = "done" => /\ passbit = (fault = {})
                      /\ errcode = (IF fault = {} THEN 0 ELSE ERR_SELFTEST)

\* every test is announced, in order
AnnouncesAll ==
    phase = "done" =>
        LET starts == SelectSeq(stream, LAMBDA e : e[1] = "START") IN
        /\ Len(starts) = NT
        /\ \A k \in 1 .. NT : starts[k][2] = Tests[k].type /\ starts[k][3] = Tests[k].descr

Inv == FailExactlyFaulted /\ GateIsConjunction /\ AnnouncesAll
Terminates == <>(phase = "done")

\* closed form of the stream for a given fault set (what Trace_SelfTest compares with)
RECURSIVE Rep(_, _)
Rep(x, n) == IF n = 0 THEN <<>> ELSE <<x>> \o Rep(x, n - 1)
RECURSIVE ExpectedFrom(_, _)
ExpectedFrom(k, F) ==
    IF k > NT THEN <<>>
    ELSE << <<"START", Tests[k].type, Tests[k].descr>> >>
         \o Rep(<<"CORRUPT", "", "">>, Tests[k].ncorrupt)
         \o << <<IF k \in F /\ Tests[k].ncorrupt > 0 THEN "FAIL" ELSE "PASS", "", "">> >>
         \o ExpectedFrom(k + 1, F)
Expected(F) == ExpectedFrom(1, F)

\* the closed form is what the state machine produces
ClosedFormAgrees == phase = "done" => stream = Expected(fault)
=============================================================================
