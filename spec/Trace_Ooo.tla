------------------------------ MODULE Trace_Ooo ------------------------------
(***************************************************************************)
(* Level-B fidelity: recorded executions whose jobs all belong to one      *)
(* out-of-order family (AES-CBC encrypt, HMAC-SHA..) are replayed through  *)
(* the level-A trace specification AND through the lane machine of         *)
(* OooLanes.tla.  The lane model is deterministic: it says which jobs      *)
(* finish inside each call (the set D that level A takes from the trace).  *)
(* With LaneStrict the two must agree in every call; a disagreement that   *)
(* level A still accepts is model drift, not a property violation.         *)
(***************************************************************************)
EXTENDS Trace_ImbMgr

CONSTANTS LaneCount, LaneStrict,
          Family,      \* "simple": OooLanes (single-phase cipher lanes), "hmac": OooHmac (multi-phase hash lanes)
          LaneBlk,     \* hmac: block size 64 or 128
          LaneRound,   \* simple: kernel granularity (1; 4 for ZUC-EEA3)
          LaneTieNew,  \* simple: FALSE; TRUE for AES-CBCS (the lane just filled wins a tie on submit)
          LaneFloor,   \* simple: 1, or 16 for DOCSIS-BPI: only the whole blocks go through the lanes (the partial last block
                       \* is ciphered when the job leaves its lane); 8 for DOCSIS-DES on AVX512
          LaneSyncShort \* TRUE: a message shorter than LaneFloor never enters a lane (DOCSIS-BPI AES); FALSE: it takes a
                       \* lane with length 0 (DOCSIS-DES x16)
OS == INSTANCE OooLanes WITH L <- LaneCount, MAXLEN <- 65535, R <- LaneRound, TieNew <- LaneTieNew
OH == INSTANCE OooHmac WITH L <- LaneCount, MAXLEN <- 65535, BLK <- LaneBlk,
                            PADMIN <- IF LaneBlk = 128 THEN 17 ELSE 9, Track <- FALSE
NOJ == 0
Empty == IF Family = "hmac" THEN OH!EmptyLanes ELSE OS!EmptyLanes
Sub(st, j, t) == IF Family = "hmac" THEN OH!OSubmit(st, j, t.hlen)
                 ELSE IF LaneFloor > 1 /\ t.len < LaneFloor /\ LaneSyncShort THEN [st |-> st, ret |-> j]
                 ELSE OS!OSubmit(st, j, (t.len \div LaneFloor) * LaneFloor)
Fl(st) == IF Family = "hmac" THEN OH!OFlush(st) ELSE OS!OFlush(st)

VARIABLE ls          \* lane state of the family
lvars == <<tvars, ls>>

\* complete_job(): flush the family until the target job has finished
RECURSIVE FlushLoop(_, _, _)
FlushLoop(st, target, acc) ==
    IF target \in acc THEN [st |-> st, done |-> acc]
    ELSE LET r == Fl(st) IN
         IF r.ret = NOJ THEN [st |-> st, done |-> acc]
         ELSE FlushLoop(r.st, target, acc \cup {r.ret})

Ids(S) == { j - 1 : j \in S \ {NOJ} }

LaneStep ==
    LET t == Tr[l] m == M(t) IN
    CASE t.e \in {"Reset", "Reinit"} -> ls' = Empty
      [] t.e = "SubmitJob" ->
            IF t.valid = 0 THEN (LaneStrict => t.done = <<>>) /\ UNCHANGED ls
            ELSE LET r1 == Sub(ls, t.id + 1, t)
                     d1 == IF r1.ret = NOJ THEN {} ELSE {r1.ret}
                     nx == Adv(next[m], 1)
                     full == earliest[m] >= 0 /\ earliest[m] = nx
                     tgt == slot[m][earliest[m]].id + 1
                     r2 == IF full /\ slot[m][earliest[m]].st = "proc"
                           THEN FlushLoop(r1.st, tgt, d1) ELSE [st |-> r1.st, done |-> d1]
                 IN /\ ls' = r2.st
                    /\ LaneStrict => Ids(r2.done) = ToSet(t.done)
      [] t.e = "FlushJob" ->
            IF earliest[m] < 0 \/ slot[m][earliest[m]].st # "proc"
            THEN (LaneStrict => t.done = <<>>) /\ UNCHANGED ls
            ELSE LET r == FlushLoop(ls, slot[m][earliest[m]].id + 1, {}) IN
                 /\ ls' = r.st
                 /\ LaneStrict => Ids(r.done) = ToSet(t.done)
      [] OTHER -> UNCHANGED ls

LInit == TraceInit /\ ls = Empty
LNext == TraceNext /\ LaneStep
LSpec == LInit /\ [][LNext]_lvars
=============================================================================
